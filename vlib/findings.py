"""known_findings.json: committed data, read-only at run time.

Entry shapes
  {"status": "known", "property": "C14", "harness": "<glob over harness names>", "region": "<python expr over
   the harness arguments>", "witness": {<kwargs of the harness>}, "what": "..."}
  {"status": "fixed", "property": "C14", "commit": "<sha>", "what": "..."}        (suppresses nothing)

A known finding *partitions the precondition*: the harness is decided on `pre and not region` (any
counterexample there is a VIOLATION); the stored witness is replayed natively and, when it still reproduces,
printed as KNOWN-FINDING."""
import fnmatch
import json
import os

from . import VERIF

_PATH = os.path.join(VERIF, 'known_findings.json')


def load():
    if not os.path.exists(_PATH):
        return []
    with open(_PATH) as f:
        return json.load(f)['findings']


def for_harness(pid: str, hname: str):
    return [e for e in load()
            if e.get('status') == 'known' and e.get('property') == pid
            and fnmatch.fnmatchcase(hname, e.get('harness', ''))]


def for_property(pid: str):
    return [e for e in load() if e.get('status') == 'known' and e.get('property') == pid]
