"""CrossHair-side adaptations (DESIGN.md section 3.1/3.4).  Imported inside engine worker processes only.

install() is idempotent.  Each patch is an environment model of C code, validated against the real thing by
validate_*() functions which the checks run concretely on every run (stub validation, not a verdict)."""
import re

_INSTALLED = False


def _findall(pattern, string, flags=0):
    """re.findall expressed through finditer, which CrossHair executes symbolically (leftmost, greedy/lazy
    priorities, look-around, groups).  Without this CrossHair realises the subject string."""
    cp = re.compile(pattern, flags)
    out = []
    for m in cp.finditer(string):
        if cp.groups == 0:
            out.append(m.group(0))
        elif cp.groups == 1:
            g = m.group(1)
            out.append(g if g is not None else '')
        else:
            out.append(tuple((g if g is not None else '') for g in m.groups()))
    return out


def install():
    global _INSTALLED
    if _INSTALLED:
        return
    _INSTALLED = True
    from crosshair import register_patch
    try:
        register_patch(re.findall, _findall)
    except BaseException as e:  # "Doubly registered" is a CrossHairInternal (BaseException)
        if 'oubly' not in str(e):
            raise
    # CrossHair's _Match.groups() lacks the `default` parameter the runtime passes (find_elem.groups(0))
    from crosshair.libimpl import relib as _relib
    _orig_groups = _relib._Match.groups

    def _groups(self, default=None):
        return tuple(default if g is None else g for g in _orig_groups(self))

    if not getattr(_relib._Match.groups, '_verif', False):
        _groups._verif = True
        _relib._Match.groups = _groups


def validate_findall(patterns, subjects):
    """differential: model vs real re.findall (concrete).  Returns list of mismatches."""
    bad = []
    for p in patterns:
        for s in subjects:
            try:
                a = re.findall(p, s)
            except re.error:
                continue
            b = _findall(p, s)
            if a != b:
                bad.append((p, s, a, b))
    return bad


def install_ascii_case():
    """ASCII model of str.lower()/upper() on CrossHair's symbolic strings (its own model forks over the Unicode
    case tables, ~1 s per path).  Sound only under a precondition that keeps every text ASCII - the harnesses
    that use it state that bound.  Validated against real str.lower/upper on all 128 ASCII code points."""
    from crosshair.libimpl import builtinslib as bl

    def lower(self):
        out = []
        for ch in self:
            o = ord(ch)
            out.append(chr(o + 32) if 65 <= o <= 90 else ch)
        return ''.join(out)

    def upper(self):
        out = []
        for ch in self:
            o = ord(ch)
            out.append(chr(o - 32) if 97 <= o <= 122 else ch)
        return ''.join(out)

    bl.AnySymbolicStr.lower = lower
    bl.AnySymbolicStr.upper = upper


def validate_ascii_case():
    for o in range(128):
        c = chr(o)
        lo = chr(o + 32) if 65 <= o <= 90 else c
        up = chr(o - 32) if 97 <= o <= 122 else c
        if c.lower() != lo or c.upper() != up:
            return False
    return True
