"""CLI: vcheck <ID> [--tier quick|thorough] [--replay file]"""
import argparse
import importlib
import json
import os
import shutil
import sys
import traceback

from . import WORK
from .report import HARNESS_ERROR, Report


def main():
    ap = argparse.ArgumentParser()
    ap.add_argument('pid')
    ap.add_argument('--tier', default=os.environ.get('VERIF_TIER', 'quick'), choices=['quick', 'thorough'])
    ap.add_argument('--replay')
    ap.add_argument('--only', default=None, help='substring filter on harness names (debugging)')
    a = ap.parse_args()
    seed = int(os.environ.get('VERIF_SEED', '0') or 0)
    pid = a.pid.upper()
    try:
        mod = importlib.import_module(f'harness.{pid.lower()}')
    except ModuleNotFoundError:
        print(f'no check for {pid}', file=sys.stderr)
        return HARNESS_ERROR
    if a.replay:
        # replay = decide the recorded harness again on the current tree (the replay file names it) and report whether it still fails
        with open(a.replay) as f:
            rp = json.load(f)
        print(f'replaying {rp.get("harness")} : {rp.get("call")}')
        a.only = (rp.get('harness') or '').split('.')[-1].split(':')[0] or None
    rep = Report(pid, a.tier, seed, getattr(mod, 'LEVEL', 'other'))
    os.environ['VERIF_ONLY'] = a.only or ''
    os.environ['VERIF_PID'] = pid
    try:
        mod.run(rep, a.tier, seed)
        if a.replay:
            hit = [v for v in rep.violations if v['harness'] == rp.get('harness')]
            print('REPRODUCED' if hit else 'not reproduced on the current tree')
            return 1 if hit else 0
        rc = rep.finish(mod.EXPLANATION, mod.RULE)
    except Exception:
        traceback.print_exc()
        print(f'[{pid}] HARNESS ERROR (machinery failure, not a verdict)')
        return HARNESS_ERROR
    finally:
        shutil.rmtree(os.path.join(WORK, pid), ignore_errors=True)
    return rc


if __name__ == '__main__':
    sys.exit(main())
