"""Helpers callable from generated harness modules (no docstring contracts: CrossHair enforces callee contracts)."""


def concretely(fn, *args):
    # Realise every argument (the solver picks a model and later explores the others), then run `fn` natively, outside
    # the engine's tracing.  Used where the code under test hashes its inputs (sets/dicts of Cell objects), which forces
    # realisation anyway: the solver then acts as the exhaustive enumerator of a finite, stated input space.
    from crosshair import realize
    from crosshair.tracers import NoTracing
    vals = [realize(a) for a in args]
    with NoTracing():
        return fn(*vals)
