"""Everything derived from /repo is regenerated here on every run: the runtime class text, translations of
workbooks through the real Parser (a real .xlsx on disk, the public API), and loaded classes."""
import ast
import hashlib
import os
import shutil
import tempfile

from . import WORK


def narrow_excepts(src: str) -> str:
    """bare `except:` -> `except Exception:` in a *loaded copy* of code under test.  CrossHair steers paths
    with BaseException subclasses which a bare except would swallow (unsound verdicts)."""
    tree = ast.parse(src)
    changed = False
    for n in ast.walk(tree):
        if isinstance(n, ast.ExceptHandler) and n.type is None:
            n.type = ast.Name('Exception', ast.Load())
            changed = True
    if not changed:
        return src
    ast.fix_missing_locations(tree)
    return ast.unparse(tree)


def runtime_source(titles=None, sheets_size=None) -> str:
    """Class text with no cell members, from the real Context of the current tree."""
    from excel2pycl.src.context import Context
    c = Context()
    c._titles = titles or {}
    c._sheets_size = sheets_size or []
    return c.build_class()


def load_class(src: str, name: str = '_gen', narrow: bool = True, extra_globals=None):
    """exec the emitted module text and return its ExcelInPython class."""
    ns = {'__name__': name}
    if extra_globals:
        ns.update(extra_globals)
    code = compile(narrow_excepts(src) if narrow else src, name + '.py', 'exec')
    exec(code, ns)
    return ns['ExcelInPython']


def scratch_dir(tag: str) -> str:
    d = os.path.join(WORK, tag)
    os.makedirs(d, exist_ok=True)
    return d


def write_xlsx(path: str, sheets):
    """sheets: list of (title, {(col0, row0): value}) with 0-based coordinates."""
    from openpyxl import Workbook
    wb = Workbook()
    first = True
    for title, cells in sheets:
        ws = wb.active if first else wb.create_sheet()
        ws.title = title
        first = False
        for (c, r), v in cells.items():
            ws.cell(row=r + 1, column=c + 1, value=v)
    wb.save(path)
    return path


def a1(sheetcells: dict) -> dict:
    """{'A1': v, 'C2': w} -> {(0,0): v, (2,1): w}"""
    from openpyxl.utils.cell import coordinate_from_string, column_index_from_string
    out = {}
    for k, v in sheetcells.items():
        col, row = coordinate_from_string(k)
        out[(column_index_from_string(col) - 1, row - 1)] = v
    return out


def translate(sheets, entry=None, safety=False, tag='wb', keep=False):
    """Real public API: workbook on disk -> Parser -> class text.  `sheets` as in write_xlsx (values may be
    given with A1 keys too).  Returns the source text.  Exceptions propagate."""
    from excel2pycl import Parser
    norm = []
    for title, cells in sheets:
        if cells and isinstance(next(iter(cells)), str):
            cells = a1(cells)
        norm.append((title, cells))
    d = tempfile.mkdtemp(prefix='e2p_', dir=scratch_dir(os.path.join(os.environ.get('VERIF_PID', 'misc'), 'xlsx')))
    try:
        p = write_xlsx(os.path.join(d, tag + '.xlsx'), norm)
        ps = Parser().set_excel_file_path(p)
        if not safety:
            ps.disable_safety_check()
        if entry is not None:
            ps.set_entrypoint_cell(entry)
        return ps.get_translation()
    finally:
        if not keep:
            shutil.rmtree(d, ignore_errors=True)


def translate_formulas(formulas: dict, consts: dict = None, title='S', extra_sheets=()):
    """One sheet `title` holding constants `consts` (A1-keyed) and the formulas `formulas` (A1-keyed).
    Returns source text."""
    cells = dict(consts or {})
    cells.update(formulas)
    return translate([(title, cells)] + list(extra_sheets))


def uid(title_index: int, a1ref: str) -> str:
    from openpyxl.utils.cell import coordinate_from_string, column_index_from_string
    col, row = coordinate_from_string(a1ref)
    return f'_{title_index}_{column_index_from_string(col) - 1}_{row - 1}'


def repo_fingerprint() -> str:
    """sha1 over the repository's python sources (evidence: which tree was encoded)."""
    from . import REPO
    h = hashlib.sha1()
    for root, dirs, files in os.walk(os.path.join(REPO, 'excel2pycl')):
        dirs.sort()
        if '__pycache__' in root:
            continue
        for f in sorted(files):
            if f.endswith('.py'):
                with open(os.path.join(root, f), 'rb') as fh:
                    h.update(f.encode())
                    h.update(fh.read())
    return h.hexdigest()[:16]


def load_base_class(narrow: bool = True):
    """AbstractExcelInPython of the current tree, loaded from its source text (bare excepts narrowed)."""
    import excel2pycl.src.utilities.abstract_excel_in_python_class as m
    with open(m.__file__, encoding='utf-8') as f:
        src = f.read()
    ns = {'__name__': '_base_rt'}
    exec(compile(narrow_excepts(src) if narrow else src, '_base_rt.py', 'exec'), ns)
    return ns['AbstractExcelInPython']
