"""Verification library for py-bc-excel2pycl: solver-based checking of the real code (see /verif/DESIGN.md)."""
import os
import sys
import warnings

warnings.simplefilter('ignore')
os.environ.setdefault('PYTHONDONTWRITEBYTECODE', '1')
sys.dont_write_bytecode = True

VERIF = os.path.dirname(os.path.dirname(os.path.abspath(__file__)))
REPO = os.environ.get('VERIF_REPO', '/repo')
WORK = os.environ.get('VERIF_WORK') or os.path.join(VERIF, '.work')
EVID = os.environ.get('VERIF_EVID') or os.path.join(VERIF, 'evidence')
REPLAY = os.environ.get('VERIF_REPLAY') or os.path.join(VERIF, 'replay')
NCPU = int(os.environ.get('VERIF_JOBS', '16'))
