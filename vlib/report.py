"""Per-check report: collects condition verdicts from the engines, prints VIOLATION / KNOWN-FINDING lines,
writes evidence/<id>.json (validated against the schema before writing) and decides the exit code."""
import json
import os
import sys
import time

from . import EVID, REPLAY, VERIF
from .build import repo_fingerprint

HARNESS_ERROR = 3   # reserved exit code: the machinery itself failed (never a verdict on the property)


class Report:
    def __init__(self, pid: str, tier: str, seed: int, level: str = 'other'):
        self.pid, self.tier, self.seed, self.level = pid, tier, seed, level
        self.t0 = time.time()
        self.conditions = []       # dicts: name, engine, verdict, secs, paths, detail
        self.violations = []       # dicts: harness, call, replay
        self.known = []            # strings
        self.known_hits = {}
        self.notes = []
        self.assumptions = []
        self.functions = set()
        self.bounds = []
        self.stubs = []
        self.samples = []
        self.extra = {}
        self.engines = set()
        self.solver_s = 0.0
        self.queries = 0

    # -- recording ---------------------------------------------------------------------------------------
    def condition(self, name, engine, verdict, secs=0.0, paths=0, detail='', queries=0):
        """verdict in: holds | violated | known | inconclusive | spurious | vacuous | skipped"""
        self.conditions.append(dict(name=name, engine=engine, verdict=verdict, secs=round(secs, 2),
                                    paths=paths, detail=detail[:400]))
        self.engines.add(engine)
        self.solver_s += secs
        self.queries += queries

    def violation(self, harness, call, detail=''):
        d = os.path.join(REPLAY, self.pid)
        os.makedirs(d, exist_ok=True)
        path = os.path.join(d, f'{harness}.json')
        with open(path, 'w') as f:
            json.dump(dict(property=self.pid, harness=harness, call=call, detail=detail, tier=self.tier,
                           repo=repo_fingerprint()), f, indent=1)
        self.violations.append(dict(harness=harness, call=call, replay=path, detail=detail[:300]))
        print(f'VIOLATION property={self.pid} replay={path}')
        print(f'  harness={harness} call={call} {detail[:300]}')
        sys.stdout.flush()

    def known_finding(self, what, key=None):
        """one line per listed finding (key = the finding's text); further hits of the same finding are only counted"""
        key = key or what
        self.known_hits[key] = self.known_hits.get(key, 0) + 1
        if self.known_hits[key] == 1:
            self.known.append(what)
            print(f'KNOWN-FINDING: property={self.pid} {what}')
            sys.stdout.flush()

    def note(self, s):
        self.notes.append(s)

    def assume(self, *items):
        for s in items:
            if s not in self.assumptions:
                self.assumptions.append(s)

    def encoded(self, *fns):
        self.functions.update(fns)

    def bound(self, s):
        if s not in self.bounds:
            self.bounds.append(s)

    def stub(self, s):
        if s not in self.stubs:
            self.stubs.append(s)

    def sample(self, s):
        if len(self.samples) < 12:
            self.samples.append(s)

    # -- finishing ---------------------------------------------------------------------------------------
    def counts(self):
        c = {}
        for x in self.conditions:
            c[x['verdict']] = c.get(x['verdict'], 0) + 1
        return c

    def finish(self, explanation: str, rule: str) -> int:
        c = self.counts()
        decided = c.get('holds', 0) + c.get('violated', 0) + c.get('known', 0)
        total = sum(v for k, v in c.items() if k != 'skipped')
        incon = [x for x in self.conditions if x['verdict'] in ('inconclusive', 'spurious', 'vacuous')]
        wall = time.time() - self.t0
        cov = dict(
            explanation=explanation,
            evaluations=max(total, 1),
            distinct_nontrivial=len({x['name'] for x in self.conditions if x['verdict'] in ('holds', 'known', 'violated')}),
            rule=rule,
            samples=self.samples or [x['name'] for x in self.conditions[:5]],
            engines=sorted(self.engines),
            functions_encoded=sorted(self.functions),
            bounds=self.bounds,
            stubs=self.stubs,
            conditions=dict(total=total, decided=decided, **c),
            paths=sum(x['paths'] for x in self.conditions),
            queries_discharged=self.queries or total,
            engine_cpu_s=round(self.solver_s, 1),
            inconclusive_items=[dict(name=x['name'], why=x['detail']) for x in incon][:60],
            known_findings_hit=self.known,
            known_finding_hits=self.known_hits,
            notes=self.notes[:40],
            repo_fingerprint=repo_fingerprint(),
            exhaustive=False,
        )
        cov.update(self.extra)
        if self.level == 'translation_validation':
            cov.setdefault('programs', max(total, 1))
            cov.setdefault('disagreements_checked', len(self.violations) + len(self.known))
        ev = dict(property_id=self.pid, tier=self.tier, seed=self.seed, level=self.level, coverage=cov,
                  assumptions=self.assumptions, wall_s=round(wall, 1), violations=len(self.violations))
        os.makedirs(EVID, exist_ok=True)
        try:
            import jsonschema
            with open('/root/.vp/EVIDENCE.schema.json') as f:
                jsonschema.validate(ev, json.load(f))
        except FileNotFoundError:
            pass
        with open(os.path.join(EVID, f'{self.pid}.json'), 'w') as f:
            json.dump(ev, f, indent=1, default=str)
        print(f'[{self.pid}] tier={self.tier} conditions={total} decided={decided} {c} '
              f'known={len(self.known)} violations={len(self.violations)} wall={wall:.0f}s')
        slow = sorted(self.conditions, key=lambda x: -x['secs'])[:4]
        print('  slowest: ' + ', '.join(f"{x['name']}={x['secs']:.0f}s/{x['paths']}p" for x in slow))
        for x in incon[:15]:
            print(f'  inconclusive: {x["name"]} ({x["verdict"]}) {x["detail"][:160]}')
        sys.stdout.flush()
        return 1 if self.violations else 0
