"""E2 — "lazyfork": proxy objects through the real bytecode, z3 decides every branch.

The real function is called with proxy values; every operation on a proxy builds a z3 term; every truth test on a
symbolic Boolean asks z3 (incremental, one solver) which sides are feasible, takes one and schedules the other (DFS).
A run ends with the property checked on that path.  All paths closed without a failing one => holds in the bound;
a failing path => its model is the counterexample (replayed natively by the caller).  A path/time budget makes
truncation explicit (inconclusive, never success)."""
import multiprocessing as mp
import os
import time
import traceback

import z3


class Exhausted(Exception):
    """a value-enumeration node has no further value: abandon this run and backtrack"""


class Budget(Exception):
    pass


class Explorer:
    def __init__(self):
        self.solver = z3.Solver()
        self.stack = []        # decisions: dict(kind='fork', taken, other) | dict(kind='val', tried, cur, advance)
        self.pos = 0
        self.queries = 0
        self.solver_s = 0.0
        self.paths = 0

    # -- solver --------------------------------------------------------------------------------------------
    def _check(self, *extra):
        t = time.time()
        self.queries += 1
        r = self.solver.check(*extra)
        self.solver_s += time.time() - t
        return r

    def assume(self, cond):
        self.solver.add(cond)

    def feasible(self):
        return self._check() == z3.sat

    # -- run control ---------------------------------------------------------------------------------------
    def start_run(self):
        self.pos = 0
        self.solver.push()

    def end_run(self):
        self.solver.pop()
        self.paths += 1

    def fork(self, cond) -> bool:
        """truth of a symbolic condition on this path (lazy DFS)"""
        if self.pos < len(self.stack):
            e = self.stack[self.pos]
            self.pos += 1
            taken = e['taken']
            self.solver.add(cond if taken else z3.Not(cond))
            return taken
        t_ok = self._check(cond) == z3.sat
        f_ok = self._check(z3.Not(cond)) == z3.sat if t_ok else True
        if not t_ok and not f_ok:
            raise Exhausted()
        taken = t_ok
        self.solver.add(cond if taken else z3.Not(cond))
        self.stack.append(dict(kind='fork', taken=taken, other=t_ok and f_ok))
        self.pos += 1
        return taken

    def concretize(self, term) -> int:
        """a concrete value of an integer term on this path; the other values are explored on later runs"""
        if self.pos < len(self.stack):
            e = self.stack[self.pos]
            self.pos += 1
            if e.get('advance'):
                e['tried'].append(e['cur'])
                e['advance'] = False
                for v in e['tried']:
                    self.solver.add(term != v)
                if self._check() != z3.sat:
                    e['dead'] = True
                    raise Exhausted()
                e['cur'] = self.solver.model().eval(term, model_completion=True).as_long()
                self.solver.add(term == e['cur'])
                return e['cur']
            for v in e['tried']:
                self.solver.add(term != v)
            self.solver.add(term == e['cur'])
            return e['cur']
        if self._check() != z3.sat:
            raise Exhausted()
        v = self.solver.model().eval(term, model_completion=True).as_long()
        self.solver.add(term == v)
        self.stack.append(dict(kind='val', tried=[], cur=v, advance=False))
        self.pos += 1
        return v

    def backtrack(self) -> bool:
        while self.stack:
            e = self.stack[-1]
            if e['kind'] == 'fork':
                if e['other']:
                    e['taken'] = not e['taken']
                    e['other'] = False
                    return True
                self.stack.pop()
            else:
                if e.get('dead'):
                    self.stack.pop()
                    continue
                e['advance'] = True
                return True
        return False

    def model(self):
        if self._check() == z3.sat:
            return self.solver.model()
        return None


# -- proxies -------------------------------------------------------------------------------------------------
class SymBool:
    def __init__(self, ex, term):
        self.ex, self.term = ex, term

    def __bool__(self):
        return self.ex.fork(self.term)

    def __invert__(self):
        return SymBool(self.ex, z3.Not(self.term))


def _t(x):
    return x.term if isinstance(x, (SymInt, SymBool)) else x


class SymInt:
    """integer proxy (z3 Int).  Arithmetic/comparison stay symbolic; index/hash/int() concretise (value enumeration)."""
    def __init__(self, ex, term):
        self.ex, self.term = ex, term

    def _c(self):
        return self.ex.concretize(self.term)

    __index__ = __int__ = _c

    def __hash__(self):
        return hash(self._c())

    def __bool__(self):
        return self.ex.fork(self.term != 0)

    def __repr__(self):
        return f'SymInt({self.term})'

    def __add__(self, o): return SymInt(self.ex, self.term + _t(o))
    __radd__ = __add__
    def __sub__(self, o): return SymInt(self.ex, self.term - _t(o))
    def __rsub__(self, o): return SymInt(self.ex, _t(o) - self.term)
    def __mul__(self, o): return SymInt(self.ex, self.term * _t(o))
    __rmul__ = __mul__
    def __neg__(self): return SymInt(self.ex, -self.term)
    def __floordiv__(self, o): return SymInt(self.ex, self.term / _t(o))      # z3 Int div: floor for positive divisors
    def __mod__(self, o): return SymInt(self.ex, self.term % _t(o))
    def __divmod__(self, o): return (self // o, self % o)
    def __eq__(self, o): return SymBool(self.ex, self.term == _t(o))
    def __ne__(self, o): return SymBool(self.ex, self.term != _t(o))
    def __lt__(self, o): return SymBool(self.ex, self.term < _t(o))
    def __le__(self, o): return SymBool(self.ex, self.term <= _t(o))
    def __gt__(self, o): return SymBool(self.ex, self.term > _t(o))
    def __ge__(self, o): return SymBool(self.ex, self.term >= _t(o))


def explore(run, max_paths=10 ** 9, timeout=10 ** 9, is_known=None, max_failures=3):
    """run(ex) -> None when the property holds on the path, else a (picklable) description of the failure.
    is_known(descr) -> truthy label when the failure falls into a known-finding region: it is tallied, and the
    exploration goes on (a known finding must not hide an unknown one behind it).
    Returns dict(paths, failures=[(descr, model_str)], known={label: [count, first descr]}, queries, solver_s, secs, complete)."""
    ex = Explorer()
    t0 = time.time()
    failures = []
    known = {}
    complete = False
    while True:
        ex.start_run()
        try:
            out = run(ex)
            if out is not None:
                label = is_known(out) if is_known else None
                if label:
                    known.setdefault(label, [0, out])[0] += 1
                else:
                    m = ex.model()
                    failures.append((out, str(m) if m is not None else ''))
        except Exhausted:
            pass
        ex.end_run()
        if len(failures) >= max_failures:
            break
        if not ex.backtrack():
            complete = True
            break
        if ex.paths >= max_paths or time.time() - t0 > timeout:
            break
    return dict(paths=ex.paths, failures=failures, known=known, queries=ex.queries, solver_s=round(ex.solver_s, 2),
                secs=round(time.time() - t0, 2), complete=complete)


# -- job pool (forked children, hard deadline) ------------------------------------------------------------------
def _child(fn, args, conn):
    try:
        out = fn(*args)
    except BaseException as e:
        out = dict(error=f'{type(e).__name__}: {e} {traceback.format_exc()[-800:]}')
    try:
        conn.send(out)
    finally:
        conn.close()
    os._exit(0)


def run_jobs(jobs, nproc, deadline=3600, total=None):
    """jobs: [(name, fn, args)] -> {name: result}; each job in its own forked process.  deadline: per job; total: budget for the whole set
    (jobs not finished by then are reported as errors, i.e. inconclusive - never as verdicts)"""
    t_start = time.time()
    ctx = mp.get_context('fork')
    pending = list(jobs)
    running, results = {}, {}
    while pending or running:
        if total is not None and time.time() - t_start > total:
            for name, _, _ in pending:
                results[name] = dict(error='not started: total budget of the job set used up')
            pending = []
            for name in list(running):
                p, pc, _ = running[name]
                p.kill()
                results[name] = dict(error='stopped: total budget of the job set used up')
                pc.close()
                p.join(1)
                del running[name]
            break
        while pending and len(running) < nproc:
            name, fn, args = pending.pop(0)
            pc, cc = ctx.Pipe(duplex=False)
            p = ctx.Process(target=_child, args=(fn, args, cc), daemon=True)
            p.start()
            cc.close()
            running[name] = (p, pc, time.time())
        time.sleep(0.02)
        for name in list(running):
            p, pc, t0 = running[name]
            done = False
            if pc.poll():
                try:
                    results[name] = pc.recv()
                except EOFError:
                    results[name] = dict(error='child died')
                done = True
            elif not p.is_alive():
                results[name] = dict(error=f'child exit {p.exitcode}')
                done = True
            elif time.time() - t0 > deadline:
                p.kill()
                results[name] = dict(error='hard deadline')
                done = True
            if done:
                pc.close()
                p.join(1)
                del running[name]
    return results
