"""E3 — term equivalence of emitted expressions (EUF first, values second).

The emitted method body of a formula cell is turned into a z3 term by a walk over Python's own ast.parse of the emitted text
(so Python's precedence is exactly what runs), every operator an uninterpreted function over one uninterpreted sort.
The reference term comes from an independent precedence-climbing parser of the formula text with Excel's table
(% > unary sign > * / > + - > & > comparisons, left associative).  `emitted != reference` unsat  <=>  the two trees are
identical: the claim then holds for every operand value and every interpretation of the operators."""
import ast
import re

import z3

U = z3.DeclareSort('U')
_F = {}


def fn(name, arity):
    if (name, arity) not in _F:
        _F[(name, arity)] = z3.Function(name, *([U] * arity), U)
    return _F[(name, arity)]


def const(name):
    return z3.Const(name, U)


# ---------------------------------------------------------------------------------------------------------------
# reference: Excel operator grammar  ->  tree  ('num', text) ('str', text) ('bool', b) ('ref', name) ('bin', op, l, r) ('neg'|'pos', x) ('pct', x)
TOK = re.compile(r'\s*(?:(\d+(?:\.\d+)?(?:e-?\d+)?)|("(?:[^"])*")|(TRUE|FALSE)|(\$?[A-Z]+\$?\d+)|(<>|>=|<=|[-+*/&=<>%()]))')
PREC = {'=': 1, '<>': 1, '<': 1, '<=': 1, '>': 1, '>=': 1, '&': 2, '+': 3, '-': 3, '*': 4, '/': 4}


class RefError(Exception):
    pass


def ref_tokens(text):
    assert text.startswith('=')
    s, i, out = text[1:], 0, []
    while i < len(s):
        if s[i:].strip() == '':
            break
        m = TOK.match(s, i)
        if not m:
            raise RefError(f'cannot lex {s[i:]!r}')
        num, st, bl, ref, op = m.groups()
        out.append(('num', num) if num else ('str', st[1:-1]) if st is not None else ('bool', bl == 'TRUE') if bl else ('ref', ref.replace('$', '')) if ref else ('op', op))
        i = m.end()
    return out


def ref_parse(text):
    toks = ref_tokens(text)
    pos = [0]

    def peek():
        return toks[pos[0]] if pos[0] < len(toks) else None

    def take():
        t = toks[pos[0]]
        pos[0] += 1
        return t

    def primary():
        t = take() if peek() else None
        if t is None:
            raise RefError('unexpected end')
        if t == ('op', '('):
            e = expr(0)
            if take() != ('op', ')'):
                raise RefError('expected )')
            node = ('par', e)
        elif t[0] == 'op' and t[1] in '+-':
            # unary sign binds tighter than * / but looser than %
            x = unary_operand()
            return ('neg' if t[1] == '-' else 'pos', x)
        elif t[0] in ('num', 'str', 'bool', 'ref'):
            node = t
        else:
            raise RefError(f'unexpected {t}')
        while peek() == ('op', '%'):
            take()
            node = ('pct', node)
        return node

    def unary_operand():
        return primary()

    def expr(minp):
        left = primary()
        while True:
            t = peek()
            if not t or t[0] != 'op' or t[1] not in PREC or PREC[t[1]] < minp:
                return left
            op = take()[1]
            right = expr(PREC[op] + 1)
            left = ('bin', op, left, right)

    e = expr(0)
    if pos[0] != len(toks):
        raise RefError(f'trailing tokens {toks[pos[0]:]}')
    return e


def _cat(l, r):
    """n-ary text concatenation; tostr(tostr(x)) = tostr(x) and associativity of + on strings are built in (stated assumption)"""
    items = []
    for x in (l, r):
        items.extend(x[1] if x[0] == 'cat' else [x])
    return ('cat', items)


def ref_tree(t):
    """normalised operator tree: ('cell', n) ('num', f) ('str', s) ('bool', b) ('op', name, args...) ('cat', [items])"""
    k = t[0]
    if k == 'par':
        return ref_tree(t[1])
    if k == 'num':
        return ('num', float(t[1]))
    if k == 'str':
        return ('str', t[1])
    if k == 'bool':
        return ('bool', t[1])
    if k == 'ref':
        return ('cell', t[1])
    if k in ('neg', 'pos'):
        return ('op', k, ref_tree(t[1]))
    if k == 'pct':
        return ('op', 'div', ref_tree(t[1]), ('num', 100.0))
    op, l, r = t[1], ref_tree(t[2]), ref_tree(t[3])
    if op == '&':
        return _cat(l, r)
    name = {'+': 'add', '-': 'sub', '*': 'mul', '/': 'div', '=': 'cmp_eq', '<>': 'cmp_ne', '<': 'cmp_lt', '<=': 'cmp_le', '>': 'cmp_gt', '>=': 'cmp_ge'}[op]
    return ('op', name, l, r)


def to_z3(t):
    k = t[0]
    if k == 'cell':
        return const('cell_' + t[1])
    if k == 'num':
        return const('num_' + repr(t[1]))
    if k == 'str':
        return const('str_' + t[1].encode().hex())
    if k == 'bool':
        return const('bool_' + str(t[1]))
    if k == 'cat':
        acc = const('nil')
        for x in reversed(t[1]):
            acc = fn('cat2', 2)(fn('tostr', 1)(to_z3(x)), acc)
        return acc
    return fn(t[1], len(t) - 2)(*[to_z3(x) for x in t[2:]])


def ref_term(t):
    return to_z3(ref_tree(t))


def ref_eval(t, env):
    """Excel value of the reference tree for Python operand values (ints / floats / strs / bools)"""
    k = t[0]
    if k == 'par':
        return ref_eval(t[1], env)
    if k == 'num':
        return float(t[1]) if ('.' in t[1] or 'e' in t[1]) else int(t[1])
    if k == 'str':
        return t[1]
    if k == 'bool':
        return t[1]
    if k == 'ref':
        return env[t[1]]
    if k == 'neg':
        return -ref_eval(t[1], env)
    if k == 'pos':
        return +ref_eval(t[1], env)
    if k == 'pct':
        return ref_eval(t[1], env) / 100
    op, l, r = t[1], ref_eval(t[2], env), ref_eval(t[3], env)
    if op == '&':
        return str(l) + str(r)
    if op == '+':
        return l + r
    if op == '-':
        return l - r
    if op == '*':
        return l * r
    if op == '/':
        return l / r
    # numbers (booleans count as 0/1, as the value tier and the runtime treat them) sort before texts
    def key(v):
        return (1, v) if isinstance(v, str) else (0, v)
    l, r = key(l), key(r)
    return {'=': l == r, '<>': l != r, '<': l < r, '<=': l <= r, '>': l > r, '>=': l >= r}[op]


# ---------------------------------------------------------------------------------------------------------------
# emitted side
class EmitError(Exception):
    pass


def emitted_return_expr(src: str, method: str):
    tree = ast.parse(src)
    for n in ast.walk(tree):
        if isinstance(n, ast.FunctionDef) and n.name == method:
            for st in n.body:
                if isinstance(st, ast.Return):
                    return st.value
    raise EmitError(f'method {method} not found')


CMP = {'<': 'cmp_lt', '<=': 'cmp_le', '>': 'cmp_gt', '>=': 'cmp_ge', '==': 'cmp_eq', '!=': 'cmp_ne'}


def emitted_tree(node, cellname):
    """cellname: uid -> slot name (e.g. '_0_0_0' -> 'A1')"""
    def is_str_call(n):
        return isinstance(n, ast.Call) and isinstance(n.func, ast.Name) and n.func.id == 'str' and len(n.args) == 1

    if isinstance(node, ast.Constant):
        v = node.value
        if isinstance(v, bool):
            return ('bool', v)
        if isinstance(v, (int, float)):
            return ('num', float(v))
        if isinstance(v, str):
            return ('str', v)
        raise EmitError(f'constant {v!r}')
    if isinstance(node, ast.BinOp):
        if isinstance(node.op, ast.Add) and is_str_call(node.left) and is_str_call(node.right):
            return _cat(emitted_tree(node.left.args[0], cellname), emitted_tree(node.right.args[0], cellname))
        name = {ast.Add: 'add', ast.Sub: 'sub', ast.Mult: 'mul', ast.Div: 'div'}.get(type(node.op))
        if not name:
            raise EmitError(f'operator {type(node.op).__name__}')
        return ('op', name, emitted_tree(node.left, cellname), emitted_tree(node.right, cellname))
    if isinstance(node, ast.UnaryOp):
        name = {ast.USub: 'neg', ast.UAdd: 'pos'}.get(type(node.op))
        if not name:
            raise EmitError(f'unary {type(node.op).__name__}')
        return ('op', name, emitted_tree(node.operand, cellname))
    if isinstance(node, ast.Call):
        f = node.func
        if is_str_call(node):
            return ('op', 'tostr', emitted_tree(node.args[0], cellname))
        if isinstance(f, ast.Attribute) and isinstance(f.value, ast.Name) and f.value.id == 'self':
            if f.attr == '_cell_preprocessor' and len(node.args) == 1 and isinstance(node.args[0], ast.Constant):
                uid = node.args[0].value
                if uid not in cellname:
                    raise EmitError(f'reference to unexpected cell {uid}')
                return ('cell', cellname[uid])
            if f.attr == '_compare' and len(node.args) == 3 and isinstance(node.args[0], ast.Constant) and node.args[0].value in CMP:
                return ('op', CMP[node.args[0].value], emitted_tree(node.args[1], cellname), emitted_tree(node.args[2], cellname))
            if f.attr == '_normalize_float_number' and len(node.args) == 1:
                return emitted_tree(node.args[0], cellname)         # documented 15-significant-digit normalisation: identity at term level
        raise EmitError(f'call {ast.unparse(node)[:60]}')
    raise EmitError(f'node {type(node).__name__}')


def emitted_term(node, cellname):
    return to_z3(emitted_tree(node, cellname))


_solver = None


def euf_equal(t1, t2):
    """True when `t1 != t2` is unsat in EUF (the two terms are the same tree)"""
    global _solver
    if _solver is None:
        _solver = z3.Solver()
    _solver.push()
    _solver.add(t1 != t2)
    r = _solver.check()
    _solver.pop()
    return r == z3.unsat
