#!/bin/sh
# Build /verif/.venv offline: overlay on /venv (which holds the repository's own environment and the
# editable install of /repo) + crosshair-tool, z3-solver, cvc5, jsonschema from the local wheelhouse.
# Idempotent; re-run is a no-op when the venv is already complete.
set -e
cd "$(dirname "$0")"
V=/verif/.venv
if [ -x "$V/bin/python" ] && "$V/bin/python" -c "import crosshair, z3, jsonschema, excel2pycl, openpyxl" >/dev/null 2>&1; then
    echo "setup: $V already complete"
    exit 0
fi
rm -rf "$V"
/venv/bin/python -m venv "$V"
SP=$("$V/bin/python" -c "import site;print(site.getsitepackages()[0])")
echo "import site; site.addsitedir('/venv/lib/python3.12/site-packages')" > "$SP/_overlay.pth"
PIP_NO_INDEX=1 "$V/bin/pip" install -q --no-index --find-links /opt/veriftools/wheels crosshair-tool z3-solver cvc5 jsonschema
"$V/bin/python" -W ignore -c "import crosshair, z3, jsonschema, excel2pycl, openpyxl; print('setup: ok', excel2pycl.__file__)"
