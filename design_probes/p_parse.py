import sys, z3, time, warnings
warnings.simplefilter('ignore')
import excel2pycl.src.tokens as T
from excel2pycl.src.tokens.regexp_base_token import RegexpBaseToken
from excel2pycl.src.cell import Cell
from excel2pycl.src.exceptions import E2PyclParserException
from lazyfork import explore

LEX = [c for c in RegexpBaseToken.subclasses() if c.__name__ not in ('UndefinedToken', 'WhitespaceToken')]
IDX = {c: i for i, c in enumerate(LEX)}
N = len(LEX)

class _ClsProxy:
    def __init__(self, ex, var): self.ex = ex; self.var = var
    def __eq__(self, other):
        j = IDX.get(other) if isinstance(other, type) else None
        if j is None: return False
        return self.ex.fork(self.var == j)
    def __hash__(self): return 0
class SymTok:
    def __init__(self, ex, var):
        self._p = _ClsProxy(ex, var); self.value = ('x',)
    @property
    def __class__(self): return self._p

L = int(sys.argv[1])
def run(ex):
    vs = [z3.Int(f'c{i}') for i in range(L)]
    for v in vs: ex.solver.add(v >= 0, v < N)
    toks = [SymTok(ex, z3.IntVal(IDX[T.EqOperatorToken]))] + [SymTok(ex, v) for v in vs]
    try:
        r, rest = T.EntryPointToken.get(toks, Cell(0, 0, 0))
    except E2PyclParserException:
        return None
    if r is None: return 'none'
    if len(rest): return 'partial'
    return None
n, res, nq, dt = explore(run)
print('L', L, 'paths', n, 'bad', len(res), 'queries', nq, 'time %.1f' % dt)
from collections import Counter
print(Counter(o for o, m in res))
for o, m in res[:5]:
    print(o, [LEX[m.eval(z3.Int(f'c{i}'), model_completion=True).as_long()].__name__ for i in range(L)])
