from typing import List
import excel2pycl.src.tokens as T
from excel2pycl.src.tokens.regexp_base_token import RegexpBaseToken
from excel2pycl.src.tokens.composite_base_token import CompositeBaseToken
from excel2pycl.src.ast_builder import AstBuilder
from excel2pycl.src.cell import Cell
from excel2pycl.src.exceptions import E2PyclParserException

LEX = [c for c in RegexpBaseToken.subclasses() if c.__name__ not in ('UndefinedToken', 'WhitespaceToken')]
IDX = {c: i for i, c in enumerate(LEX)}
N = len(LEX)

class _ClsProxy:
    __slots__ = ('_idx',)
    def __init__(self, idx): self._idx = idx
    def __eq__(self, other):
        j = IDX.get(other) if isinstance(other, type) else None
        if j is None:
            return False
        return self._idx == j
    def __ne__(self, other): return not self.__eq__(other)
    def __hash__(self): return 0

class SymTok:
    def __init__(self, idx):
        self._idx = idx
        self.value = ('x',)
    @property
    def __class__(self):
        return _ClsProxy(self._idx)

def parse_total(idx: List[int]):
    """
    pre: len(idx) == 3 and all(0 <= i < N for i in idx)
    post: _ == True
    """
    toks = [SymTok(IDX[T.EqOperatorToken])] + [SymTok(i) for i in idx]
    try:
        r, rest = T.EntryPointToken.get(toks, Cell(0, 0, 0))
    except E2PyclParserException:
        return True
    return r is not None and len(rest) == 0
