import datetime
from genrt2 import RT

def _leap(y): return y % 4 == 0 and (y % 100 != 0 or y % 400 == 0)
def _dby(y):  # days before Jan 1 of year y (proleptic Gregorian ordinal base 1)
    y -= 1
    return y * 365 + y // 4 - y // 100 + y // 400
_DBM = [0, 31, 59, 90, 120, 151, 181, 212, 243, 273, 304, 334]
def _ord(y, m, d):
    return _dby(y) + _DBM[m - 1] + (1 if m > 2 and _leap(y) else 0) + d

def date_year_sym(y: int):
    """
    pre: 1900 <= y <= 2400
    post: _ == True
    """
    r = RT._date(y, 3, 0)          # last day of February of year y
    return r.toordinal() == _ord(y, 3, 1) - 1 and r.month == 2 and r.day == (29 if _leap(y) else 28)

def date_year_window(y: int):
    """
    pre: -5 <= y <= 10005
    post: _ == True
    """
    r = RT._date(y, 1, 1)
    if y < 0 or y > 9999:
        return r == '#NUM!'
    yy = y + 1900 if y <= 1899 else y
    return r == datetime.datetime(yy, 1, 1)
