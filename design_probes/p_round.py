import random, math
from fractions import Fraction
def model_round(M, s, n):
    """Python round(x, n) for x = nearest double of M/10^s (M >= 0), per the contract model."""
    x = M / 10**s                      # correctly rounded quotient of exact ints
    if n >= s:
        return x                        # already representable at that precision (claim to validate)
    k = s - n
    if n >= 0:
        q, r = divmod(M, 10**k); half = 5 * 10**(k - 1)
        if r < half: R = q
        elif r > half: R = q + 1
        else:
            e = Fraction(x) * 10**s - M        # exact residual sign (SMT: fp.fma)
            if e > 0: R = q + 1
            elif e < 0: R = q
            else: R = q + (q & 1)
        return R / 10**n
    else:
        # negative digits: scale 10^(s-n)
        q, r = divmod(M, 10**k); half = 5 * 10**(k - 1)
        if r < half: R = q
        elif r > half: R = q + 1
        else:
            e = Fraction(x) * 10**s - M
            R = q + 1 if e > 0 else q if e < 0 else q + (q & 1)
        return float(R * 10**(-n))
random.seed(1); bad = 0; tot = 0
for _ in range(300000):
    s = random.randint(0, 4); n = random.randint(-3, 6)
    M = random.randint(0, 10**random.randint(1, 9))
    if random.random() < 0.4 and s > n:      # force decimal ties
        k = s - n; M = (M // 10**k) * 10**k + 5 * 10**(k - 1)
    x = M / 10**s
    got = round(x, n); exp = model_round(M, s, n); tot += 1
    if got != exp:
        bad += 1
        if bad < 6: print('MISMATCH', M, s, n, x, got, exp)
print('checked', tot, 'mismatches', bad)
