from typing import List, Union, Optional
from genrt2 import load_src
from mkwb import translate
from excel2pycl import Executor, Cell
V = Union[int, float, bool, str, None]
_cells = {(0, 0): 1, (1, 0): 2, (0, 1): 3, (1, 1): 4,
          (3, 0): '=AVERAGE(A1:B2)', (3, 1): '=MIN(A1:B2)', (3, 2): '=COUNT(A1:B2)', (3, 3): '=AND(A1:B2)', (3, 4): '=SUM(A1:B2)+A1'}
K = load_src(translate([('S', _cells)]), 'gen_c11b')
ERR = ['#NUM!', '#DIV/0!', '#N/A', '#NAME?', ' #NULL!', '#NULL!', '#REF!', '#VALUE!']
def _mk(vals):
    uids = ['_0_0_0', '_0_1_0', '_0_0_1', '_0_1_1']
    inst = K()
    inst.set_arguments([{'uid': u, 'value': inst.EmptyCell() if v is None else v} for u, v in zip(uids, vals)])
    return inst
def _isnum(v): return isinstance(v, (int, float)) and not isinstance(v, bool)
def _ok(vals): return all(not isinstance(v, str) or (len(v) <= 2 and all(ord(c) < 128 for c in v)) for v in vals)

def average_rect(a: V, b: V, c: V, d: V):
    """
    pre: _ok([a, b, c, d])
    post: _ == True
    """
    nums = [v for v in [a, b, c, d] if _isnum(v)]
    inst = _mk([a, b, c, d])
    if not nums:
        try:
            r = inst.exec_function_in('_0_3_0')
        except Exception:
            return True
        return isinstance(r, str)
    return inst.exec_function_in('_0_3_0') == sum(nums) / len(nums)

def count_rect(a: V, b: V, c: V, d: V):
    """
    pre: _ok([a, b, c, d])
    post: _ == True
    """
    return _mk([a, b, c, d]).exec_function_in('_0_3_2') == sum(1 for v in [a, b, c, d] if _isnum(v))

_K2 = load_src(translate([('S', {(0, 0): 1, (1, 0): '=A1+1', (0, 1): 5, (1, 1): '=SUM(A1:A2)'})]), 'gen_c08')
def sched(ops: List[int], v: int):
    """
    pre: len(ops) <= 3 and all(0 <= o < 8 for o in ops)
    post: _ == True
    """
    ex = Executor().set_executed_class(class_object=_K2)
    ex.set_cells([Cell(0, 0, 0, v)])
    size0 = [dict(s) for s in ex._sheets_size]
    for o in ops:
        kind, tgt = divmod(o, 2)
        c = Cell(0, 1, tgt) if kind % 2 == 0 else Cell('S', 'B', str(tgt + 1))
        if kind < 2: ex.get_cell(c)
        elif kind == 2: ex.get_cells([c, Cell(0, 0, 0)])
        else: ex.get_sheet('S' if tgt else 0)
    fresh = Executor().set_executed_class(class_object=_K2); fresh.set_cells([Cell(0, 0, 0, v)])
    grid = ex.get_sheet(0)
    return (ex.get_cell(Cell(0, 1, 1)).value == fresh.get_cell(Cell(0, 1, 1)).value == v + 5
            and ex._sheets_size == size0 and len(grid) == 2 and all(len(r) == 2 for r in grid)
            and grid[0][1].value == v + 1)
