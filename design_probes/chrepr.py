import builtins
from crosshair import register_patch, NoTracing
from crosshair.core import with_realized_args
_orig_repr = builtins.repr
def _str_repr_model(s):
    """CPython's str.__repr__ for printable ASCII + \\n \\t \\r (model; validated against real repr)"""
    q = "'"
    if "'" in s and '"' not in s:
        q = '"'
    out = [q]
    for ch in s:
        if ch == q or ch == '\\':
            out.append('\\' + ch)
        elif ch == '\n': out.append('\\n')
        elif ch == '\t': out.append('\\t')
        elif ch == '\r': out.append('\\r')
        else: out.append(ch)
    out.append(q)
    return ''.join(out)
def _repr(x):
    if isinstance(x, str):
        return _str_repr_model(x)
    return _orig_repr(x)
import crosshair.core as _core
_prev = _core._PATCH_REGISTRATIONS.get(builtins.repr)
def _repr2(x):
    if isinstance(x, str):
        return _str_repr_model(x)
    return _prev(x) if _prev else _orig_repr(x)
_core._PATCH_REGISTRATIONS[builtins.repr] = _repr2
