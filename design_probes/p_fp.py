import z3, time, sys
F = z3.Float64(); RNE = z3.RNE()
def kernel(bits, s, n, find=True, lo=None):
    M = z3.BitVec('M', bits)
    xM = z3.fpToFP(RNE, z3.ZeroExt(64 - bits, M), F) if False else z3.fpSignedToFP(RNE, z3.ZeroExt(64-bits, M), F)
    x = z3.fpDiv(RNE, xM, z3.FPVal(10**s, F))
    y = z3.fpMul(RNE, x, z3.FPVal(10**n, F))
    c = z3.fpRoundToIntegral(z3.RTP(), y)
    r = z3.fpDiv(RNE, c, z3.FPVal(10**n, F))
    S = z3.Solver()
    S.add(z3.ULT(M, 10**4))
    if lo is not None: S.add(lo(M))
    S.add(z3.Not(z3.fpEQ(r, x)))
    t = time.time(); res = S.check(); dt = time.time() - t
    print('roundup unchanged s=%d n=%d' % (s, n), res, '%.1fs' % dt, S.model()[M] if res == z3.sat else '')
kernel(16, 2, 2)
# unsat-ish region: multiples where product exact? restrict to M multiple of 25 (x = k/4 exact)
kernel(16, 2, 2, lo=lambda M: z3.URem(M, 25) == 0)
