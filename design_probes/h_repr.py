import chplug, chrepr
from h_lit import denotes
from excel2pycl.src.cell import Cell
from excel2pycl.src.context import Context
from excel2pycl.src.excel import Excel
from excel2pycl.src.translators import CellTranslator

def const_cell(s: str):
    """
    pre: len(s) <= 3 and all(32 <= ord(c) < 127 for c in s) and not s.startswith('=')
    post: _ == True
    """
    ex = Excel({'data': [[[s]]], 'titles': ['S'], 'suspicious_cells': {}, 'sheets_size': [{'last_column': 1, 'last_row': 1}]})
    ctx = Context()
    CellTranslator.translate(Cell(0, 0, 0), ex, ctx)
    code = ctx._cell_translations['_0_0_0']
    return denotes(code) == s
