import chplug
from excel2pycl.src.excel import Excel
from excel2pycl.src.cell import Cell
from excel2pycl.src.exceptions import E2PyclException

DATA = [[[11, 12, 13, 14], [21, None, 23], [], [41, 42, 43, 44, 45]], [[101]]]
EX = Excel({'data': DATA, 'titles': ['S', 'T'], 'suspicious_cells': {}, 'sheets_size': []})
def _val(s, c, r):
    return DATA[s][r][c] if 0 <= r < len(DATA[s]) and 0 <= c < len(DATA[s][r]) else None

def matrix(c1: int, r1: int, c2: int, r2: int):
    """
    pre: 0 <= c1 <= c2 <= 5 and 0 <= r1 <= r2 <= 4
    post: _ == True
    """
    m = EX.get_matrix(Cell(0, c1, r1, _handled_identifiers=True), Cell(0, c2, r2, _handled_identifiers=True))
    exp = [[(c, r, _val(0, c, r)) for c in range(c1, c2 + 1)] for r in range(r1, r2 + 1)]
    got = [[(x.column, x.row, x.value) for x in row] for row in m]
    return got == exp

def whole_cols(c1: int, c2: int):
    """
    pre: 0 <= c1 <= c2 <= 3
    post: _ == True
    """
    m = EX.get_matrix(Cell(0, c1, None, _handled_identifiers=True), Cell(0, c2, None, _handled_identifiers=True))
    exp = [[(c, r, _val(0, c, r)) for c in range(c1, c2 + 1)] for r in range(len(DATA[0]))]
    got = [[(x.column, x.row, x.value) for x in row] for row in m]
    return got == exp

def susp3(s: str):
    """
    pre: len(s) <= 3 and all(c in 'aA_1(). ' for c in s)
    post: _ == True
    """
    got = len(Excel._get_suspicious_constructions(s)) > 0
    has_lower_call = False
    for i, ch in enumerate(s):
        if ch == '(' and i > 0 and ')' in s[i + 1:] and (s[i - 1].isalnum() or s[i - 1] == '_'):
            if not ('A' <= s[i - 1] <= 'Z'):
                has_lower_call = True
    any_upper_paren = any(ch == '(' and i > 0 and 'A' <= s[i - 1] <= 'Z' for i, ch in enumerate(s))
    if has_lower_call and not any_upper_paren:
        return got is True
    if not any(ch == '(' and i > 0 and (s[i - 1].isalnum() or s[i - 1] == '_') and ')' in s[i + 1:] for i, ch in enumerate(s)):
        return got is False
    return True

def susp4(s: str):
    """
    pre: len(s) == 4 and all(c in 'aA_1(). ' for c in s)
    post: _ == True
    """
    return susp3(s)
