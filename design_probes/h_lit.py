import chplug
from excel2pycl.src.cell import Cell
from excel2pycl.src.tokens.regexp_tokens import LiteralToken, PatternToken

def denotes(code):
    """model of Python's short-string literal grammar: returns decoded str or None"""
    if len(code) < 2:
        return None
    q = code[0]
    if q != "'" and q != '"':
        return None
    out = []
    i = 1
    n = len(code)
    while i < n:
        ch = code[i]
        if ch == '\n':
            return None
        if ch == q:
            return ''.join(out) if i == n - 1 else None
        if ch == '\\':
            if i + 1 >= n:
                return None
            e = code[i + 1]
            if e == 'n': out.append('\n')
            elif e == 't': out.append('\t')
            elif e == '\\' or e == "'" or e == '"': out.append(e)
            elif e == '\n': pass
            else:
                return None      # other escapes: treated as "not a plain literal of s" (conservative)
            i += 2
            continue
        out.append(ch)
        i += 1
    return None

def lit_plain(s: str):
    """
    pre: len(s) <= 3 and all(32 <= ord(c) < 127 or c == chr(10) for c in s) and '"' not in s
    post: _ == True
    """
    tok, rest = LiteralToken.get('"' + s + '"', Cell(0, 0, 0))
    if tok is None:
        return True          # rejected is fine
    return denotes(tok.value) == s and rest == ''

def lit_plain_safe(s: str):
    """
    pre: len(s) <= 3 and all(32 <= ord(c) < 127 for c in s) and '"' not in s and "'" not in s and chr(92) not in s
    post: _ == True
    """
    tok, rest = LiteralToken.get('"' + s + '"', Cell(0, 0, 0))
    if tok is None:
        return True
    return denotes(tok.value) == s and rest == ''

def pattern_span(tail: str):
    """
    pre: len(tail) <= 3 and all(c in 'a"*+' for c in tail)
    post: _ == True
    """
    tok, rest = PatternToken.get('"a*"' + tail, Cell(0, 0, 0))
    if tok is None:
        return True
    return tok.value[0] == '"a*"' and rest == tail
