import datetime
from genrt2 import RT

def cmp_blank_date_m3(d: int):
    """
    pre: 1 <= d <= 31
    post: _ == True
    """
    e = RT.EmptyCell(); x = datetime.date(2024, 3, d)
    return RT._compare('<', e, x) and not RT._compare('>=', e, x) and RT._compare('>', x, e) and not RT._compare('==', e, x)

def cmp_dates_m(d1: int, h1: int, d2: int, op: int):
    """
    pre: 1 <= d1 <= 29 and 1 <= d2 <= 29 and 0 <= h1 <= 23 and 0 <= op < 6
    post: _ == True
    """
    import operator
    ops = ['>=', '>', '<=', '<', '==', '!=']; fns = [operator.ge, operator.gt, operator.le, operator.lt, operator.eq, operator.ne]
    a = datetime.datetime(2024, 2, d1, h1); b = datetime.date(2024, 2, d2)
    return RT._compare(ops[op], a, b) == fns[op]((d1, h1), (d2, 0))

def edate_m1(d: int, k: int):
    """
    pre: 1 <= d <= 31 and -14 <= k <= 14
    post: _ == True
    """
    ML = lambda y, mm: [31, 29 if (y % 4 == 0 and (y % 100 != 0 or y % 400 == 0)) else 28, 31, 30, 31, 30, 31, 31, 30, 31, 30, 31][mm - 1]
    s = datetime.datetime(2024, 1, d)
    t = 2024 * 12 + k
    y2, m2 = t // 12, t % 12 + 1
    e1 = RT._edate(s, k)
    return (e1.year, e1.month, e1.day) == (y2, m2, min(d, ML(y2, m2)))

def edate_ord(o: int, k: int):
    """
    pre: 738000 <= o <= 739500 and -14 <= k <= 14
    post: _ == True
    """
    s = datetime.datetime.fromordinal(o)
    e1 = RT._edate(s, k)
    t = s.year * 12 + s.month - 1 + k
    return (e1.year, e1.month) == (t // 12, t % 12 + 1)
