import sys, time, warnings
warnings.simplefilter('ignore')
from crosshair.core_and_libs import analyze_function, run_checkables, MessageType
from crosshair.options import AnalysisOptionSet
from crosshair.options import DEFAULT_OPTIONS
import h_lookup
calls = [0]
orig = h_lookup.match_approx
opts = AnalysisOptionSet(per_condition_timeout=20, report_all=True, max_uninteresting_iterations=10**9)
for fn in [h_lookup.match_exact_first, h_lookup.match_approx]:
    t = time.time()
    chk = analyze_function(fn, opts)
    msgs = list(run_checkables(chk))
    for m in msgs:
        print(fn.__name__, m.state, repr(m.message), '%.1fs' % (time.time() - t))
