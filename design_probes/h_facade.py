from typing import Optional, Tuple
import excel2pycl.src.utilities.parser as P
from excel2pycl.src.exceptions import E2PyclSafetyException, E2PyclParserException

UNSAFE = 2   # path id 2 is an "unsafe" workbook

class _StubExcel:
    def __init__(self, path): self.path = path
    @classmethod
    def parse(cls, path): return cls(path)
    def is_safe(self):
        if self.path == UNSAFE:
            raise E2PyclSafetyException(suspicious_cells={'x': ['y']})
    def get_titles(self): return {}
    def get_sheets_size(self): return []
class _StubContext:
    def __init__(self): self.entry = None; self.path = None
    def build_class(self): return (self.path, self.entry)
class _StubCT:
    @classmethod
    def translate(cls, cell, excel, context): context.entry = cell; context.path = excel.path
    @classmethod
    def translate_file(cls, excel, context): context.entry = None; context.path = excel.path
P.Excel = _StubExcel; P.Context = _StubContext; P.CellTranslator = _StubCT

def F(path, entry, safety):
    if not path: return ('raise', E2PyclParserException)
    if safety and path == UNSAFE: return ('raise', E2PyclSafetyException)
    return ('ok', (path, entry))

def inv(p):
    if p._excel_file_path_has_been_changed or p._entrypoint_cell_has_been_changed:
        return True
    return F(p._excel_file_path, p._entrypoint_cell, p._safety_check) == ('ok', p._translation)

def _mk(path, entry, safety, tpath, tentry, d1, d2):
    p = P.Parser()
    p._excel_file_path = path; p._entrypoint_cell = entry; p._safety_check = safety
    p._translation = (tpath, tentry)
    p._excel_file_path_has_been_changed = d1; p._entrypoint_cell_has_been_changed = d2
    return p

def step_set_entry(path: int, entry: Optional[int], safety: bool, tpath: int, tentry: Optional[int], d1: bool, d2: bool, e: Optional[int]):
    """
    pre: 0 <= path <= 3 and inv(_mk(path, entry, safety, tpath, tentry, d1, d2))
    post: _ == True
    """
    p = _mk(path, entry, safety, tpath, tentry, d1, d2)
    p.set_entrypoint_cell(e)
    return inv(p)

def step_set_path(path: int, entry: Optional[int], safety: bool, tpath: int, tentry: Optional[int], d1: bool, d2: bool, q: int):
    """
    pre: 0 <= path <= 3 and 0 <= q <= 3 and inv(_mk(path, entry, safety, tpath, tentry, d1, d2))
    post: _ == True
    """
    p = _mk(path, entry, safety, tpath, tentry, d1, d2)
    p.set_excel_file_path(q)
    return inv(p)

def step_enable(path: int, entry: Optional[int], safety: bool, tpath: int, tentry: Optional[int], d1: bool, d2: bool):
    """
    pre: 0 <= path <= 3 and inv(_mk(path, entry, safety, tpath, tentry, d1, d2))
    post: _ == True
    """
    p = _mk(path, entry, safety, tpath, tentry, d1, d2)
    p.enable_safety_check()
    return inv(p)

def step_get(path: int, entry: Optional[int], safety: bool, tpath: int, tentry: Optional[int], d1: bool, d2: bool):
    """
    pre: 0 <= path <= 3 and inv(_mk(path, entry, safety, tpath, tentry, d1, d2))
    post: _ == True
    """
    p = _mk(path, entry, safety, tpath, tentry, d1, d2)
    exp = F(path, entry, safety)
    try:
        got = ('ok', p.get_translation())
    except E2PyclParserException as ex:
        got = ('raise', type(ex))
    return got == exp and inv(p)
