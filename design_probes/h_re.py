import re
from genrt import RT
from excel2pycl.src.excel import Excel
from excel2pycl.src.cell import Cell
from excel2pycl.src.tokens.regexp_tokens import CellIdentifierToken, LiteralToken

def search_plain(f: str, t: str):
    """
    pre: 1 <= len(f) <= 2 and len(t) <= 3 and all(ch in 'ab' for ch in f) and all(ch in 'abAB' for ch in t)
    post: _ == True
    """
    got = RT._search(f, t, None)
    i = t.lower().find(f.lower())
    exp = i + 1 if i >= 0 else '#VALUE!'
    return got == exp

def suspicious(s: str):
    """
    pre: len(s) <= 4
    post: _ == True
    """
    got = Excel._get_suspicious_constructions(s)
    return (len(got) > 0) == (re.search(r'[a-z_0-9]\(', s) is not None and ')' in s)

def cellid(s: str):
    """
    pre: len(s) <= 3
    post: _ == True
    """
    tok, rest = CellIdentifierToken.get(s, Cell(0, 0, 0))
    if tok is None:
        return True
    return tok.cell.column.isalpha() and tok.cell.row.isdigit()
