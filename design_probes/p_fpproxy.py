import z3, math, time, warnings
warnings.simplefilter('ignore')
from genrt import RT
F = z3.Float64(); RNE = z3.RNE()

def fpv(v):
    if isinstance(v, (SymFloat, SymIntF)): return v.t
    if isinstance(v, SymInt): return z3.fpSignedToFP(RNE, z3.Int2BV(v.t, 64), F)
    if isinstance(v, int): return z3.FPVal(v, F)       # exact for |v| < 2**53 (asserted elsewhere)
    if isinstance(v, float): return z3.FPVal(v, F)
    raise TypeError(v)

class SymIntF:
    'integer-valued double (|v| < 2**53): int held as an integral FP term'
    def __init__(self, t): self.t = t
    def __truediv__(self, o): return SymFloat(z3.fpDiv(RNE, self.t, fpv(o)))
class SymInt:
    def __init__(self, t): self.t = t
    def __truediv__(self, o): return SymFloat(z3.fpDiv(RNE, fpv(self), fpv(o)))
class SymFloat:
    def __init__(self, t): self.t = t
    def __mul__(self, o): return SymFloat(z3.fpMul(RNE, self.t, fpv(o)))
    __rmul__ = __mul__
    def __truediv__(self, o): return SymFloat(z3.fpDiv(RNE, self.t, fpv(o)))
    def __ceil__(self): return SymIntF(z3.fpRoundToIntegral(z3.RTP(), self.t))
    def __floor__(self): return SymIntF(z3.fpRoundToIntegral(z3.RTN(), self.t))

M = z3.BitVec('M', 16)
x = SymFloat(z3.fpDiv(RNE, z3.fpSignedToFP(RNE, z3.ZeroExt(48, M), F), z3.FPVal(100, F)))
r = RT._roundup(x, 2)          # the real generated helper, executed on the proxy
print(type(r).__name__)
S = z3.Solver(); S.add(z3.ULT(M, 10000)); S.add(z3.Not(z3.fpEQ(r.t, x.t)))
t = time.time(); print(S.check(), '%.1fs' % (time.time() - t), S.model()[M])
m = S.model()[M].as_long()
print('replay', m / 100, RT._roundup(m / 100, 2))
