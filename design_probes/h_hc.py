from excel2pycl.src.cell import Cell
from excel2pycl.src.handle_cell import handle_cell

def hc(col: str, row: int):
    """
    pre: 1 <= len(col) <= 3 and all('A' <= ch <= 'Z' for ch in col) and 1 <= row <= 99999
    post: _ == True
    """
    c = Cell('S', col, str(row))
    handle_cell(c, {'S': 0})
    n = 0
    for ch in col:
        n = n * 26 + (ord(ch) - 64)
    return c.column == n - 1 and c.row == row - 1 and c.title == 0
