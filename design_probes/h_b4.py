import datetime
from typing import Optional, Union, List
from genrt2 import RT, load_src
from mkwb import translate

_K = load_src(translate([('S', {(0, 0): 1, (1, 0): 2, (2, 0): 5,
     (3, 0): '=IFERROR(MATCH(A1,B1:C1,0),-1)', (3, 1): '=IFERROR(IFERROR(LEFT("ab",A1),-1)&"x",-2)', (3, 2): '=1+IF(A1>B1,IF(B1>C1,1,2),3)*4',
     (3, 3): '=INDEX(A1:C1,A1)'})]), 'gen_b4')
def _ev(uid, a, b, c):
    return _K([{'uid': '_0_0_0', 'value': a}, {'uid': '_0_1_0', 'value': b}, {'uid': '_0_2_0', 'value': c}]).exec_function_in(uid)

def iferror_match(a: int, b: int, c: int):
    """ post: _ == True """
    return _ev('_0_3_0', a, b, c) == (1 if a == b else 2 if a == c else -1)

def iferror_nested(a: int):
    """
    pre: -3 <= a <= 4
    post: _ == True
    """
    inner = '#ERROR!' if a < 0 else ('ab'[:a])
    # '#ERROR!' is not one of Excel's seven error values -> passes through
    return _ev('_0_3_1', a, 0, 0) == str(inner) + 'x'

def if_nested_arith(a: int, b: int, c: int):
    """ post: _ == True """
    return _ev('_0_3_2', a, b, c) == 1 + ((1 if b > c else 2) if a > b else 3) * 4

def index_row(a: int, b: int, c: int):
    """
    pre: 1 <= a <= 4
    post: _ == True
    """
    return _ev('_0_3_3', a, b, c) == ([a, b, c][a - 1] if a <= 3 else '#REF!')

def cmp_dates(m1: int, d1: int, h1: int, m2: int, d2: int, op: int):
    """
    pre: 1 <= m1 <= 12 and 1 <= m2 <= 12 and 1 <= d1 <= 28 and 1 <= d2 <= 28 and 0 <= h1 <= 23 and 0 <= op < 6
    post: _ == True
    """
    import operator
    ops = ['>=', '>', '<=', '<', '==', '!=']; fns = [operator.ge, operator.gt, operator.le, operator.lt, operator.eq, operator.ne]
    a = datetime.datetime(2024, m1, d1, h1); b = datetime.date(2024, m2, d2)
    return RT._compare(ops[op], a, b) == fns[op]((m1, d1, h1), (m2, d2, 0))

def cmp_blank_date(m: int, d: int):
    """
    pre: 1 <= m <= 12 and 1 <= d <= 28
    post: _ == True
    """
    e = RT.EmptyCell(); x = datetime.date(2024, m, d)
    return RT._compare('<', e, x) and not RT._compare('>=', e, x) and RT._compare('>', x, e) and not RT._compare('==', e, x)

def edate_eomonth(m: int, d: int, k: int):
    """
    pre: 1 <= m <= 12 and 1 <= d <= 31 and -60 <= k <= 60 and d <= [31,29,31,30,31,30,31,31,30,31,30,31][m-1]
    post: _ == True
    """
    ML = lambda y, mm: [31, 29 if (y % 4 == 0 and (y % 100 != 0 or y % 400 == 0)) else 28, 31, 30, 31, 30, 31, 31, 30, 31, 30, 31][mm - 1]
    s = datetime.datetime(2024, m, d)
    t = 2024 * 12 + (m - 1) + k
    y2, m2 = t // 12, t % 12 + 1
    e1 = RT._edate(s, k); e2 = RT._eomonth(s, k)
    return (e1.year, e1.month, e1.day) == (y2, m2, min(d, ML(y2, m2))) and (e2.year, e2.month, e2.day) == (y2, m2, ML(y2, m2))
