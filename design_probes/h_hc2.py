from excel2pycl.src.cell import Cell
from excel2pycl.src.handle_cell import handle_cell
import openpyxl.utils
from crosshair import register_patch

def _col_model(s):
    n = 0
    for ch in s:
        if not ('A' <= ch <= 'Z'):
            raise ValueError(s)
        n = n * 26 + (ord(ch) - 64)
    if not (1 <= n <= 18278):
        raise ValueError(s)
    return n
register_patch(openpyxl.utils.column_index_from_string, _col_model)

def hc_col(col: str):
    """
    pre: 1 <= len(col) <= 3 and all('A' <= ch <= 'Z' for ch in col)
    post: _ == True
    """
    c = Cell('S', col, '5')
    handle_cell(c, {'S': 0})
    n = 0
    for ch in col:
        n = n * 26 + (ord(ch) - 64)
    return c.column == n - 1 and c.row == 4 and c.title == 0

def hc_row(row: str):
    """
    pre: 1 <= len(row) <= 3 and all('0' <= ch <= '9' for ch in row)
    post: _ == True
    """
    c = Cell('S', 'B', row)
    handle_cell(c, {'S': 0})
    n = 0
    for ch in row:
        n = n * 10 + (ord(ch) - 48)
    return c.row == n - 1 and c.column == 1
