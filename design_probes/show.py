import sys, re
from mkwb import translate
forms = sys.argv[1:]
cells = {(0, 0): 1, (1, 0): 2, (2,0): 3}
for i, f in enumerate(forms):
    cells[(3, i)] = f
try:
    src = translate([('S', cells)])
except Exception as e:
    print('EXC', type(e).__name__, e); sys.exit()
tail = src.split("return '#VALUE!'\n")[-1]
print(tail)
