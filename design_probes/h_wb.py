from typing import List, Optional, Union
import excel2pycl.src.excel as X
from excel2pycl.src.cell import Cell
from excel2pycl.src.exceptions import E2PyclSafetyException
from openpyxl.utils import get_column_letter

class FCell:
    def __init__(self, row, column, value):
        self.row = row; self.column = column; self.value = value
    @property
    def column_letter(self): return get_column_letter(self.column)
    @property
    def coordinate(self): return f'{self.column_letter}{self.row}'
class FSheet:
    def __init__(self, title, grid):
        self.title = title; self._grid = grid      # grid: list of rows, each list of values-or-None (None = not stored)
    def reset_dimensions(self): pass
    def iter_rows(self):
        # contract of openpyxl read-only iter_rows with unknown dimensions
        last_row = 0
        for r, row in enumerate(self._grid):
            if any(v is not None for v in row):
                last_row = r + 1
        for r in range(last_row):
            row = self._grid[r]
            last_col = 0
            for c, v in enumerate(row):
                if v is not None:
                    last_col = c + 1
            yield tuple(FCell(r + 1, c + 1, row[c]) for c in range(last_col))
class FBook:
    def __init__(self, sheets): self.worksheets = sheets; self.sheetnames = [s.title for s in sheets]
    def close(self): pass

_CUR = {}
def _fake_load(filename, read_only=True): return _CUR['wb']
X.load_workbook = _fake_load

V = Optional[int]
def read_fidelity(a: V, b: V, c: V, d: V, e: V, f: V, r: int, col: int):
    """
    pre: 0 <= r <= 3 and 0 <= col <= 3
    post: _ == True
    """
    grid = [[a, b, c], [None, None, None], [d, e, f]]
    _CUR['wb'] = FBook([FSheet('S', grid), FSheet('T', [])])
    ex = X.Excel.parse('x')
    got = ex._fill_cell(Cell(0, col, r)).value
    exp = grid[r][col] if r < 3 and col < 3 else None
    rows = max([i + 1 for i, row in enumerate(grid) if any(v is not None for v in row)] or [0])
    cols = max([j + 1 for row in grid for j, v in enumerate(row) if v is not None] or [0])
    return got == exp and ex.get_sheets_size()[0] == {'last_column': cols, 'last_row': rows} and ex.get_titles() == {'S': 0, 'T': 1}

def safety_key(r: int, col: int):
    """
    pre: 0 <= r <= 2 and 0 <= col <= 2
    post: _ == True
    """
    grid = [[None, None, None], [None, None, None], [None, None, None]]
    grid[r][col] = 'eval(1)'
    _CUR['wb'] = FBook([FSheet('S', grid)])
    ex = X.Excel.parse('x')
    try:
        ex.is_safe()
    except E2PyclSafetyException as exc:
        keys = list(exc.suspicious_cells)
        return len(keys) == 1 and keys[0].replace("'", '').replace('!', '') == 'S' + get_column_letter(col + 1) + str(r + 1)
    return False

def read_layout(p: List[bool], r: int, col: int):
    """
    pre: len(p) == 9 and 0 <= r <= 3 and 0 <= col <= 3
    post: _ == True
    """
    grid = [[(11 + 3 * i + j) if p[3 * i + j] else None for j in range(3)] for i in range(3)]
    _CUR['wb'] = FBook([FSheet('S', grid), FSheet('T', [])])
    ex = X.Excel.parse('x')
    got = ex._fill_cell(Cell(0, col, r)).value
    exp = grid[r][col] if r < 3 and col < 3 else None
    rows = max([i + 1 for i, row in enumerate(grid) if any(v is not None for v in row)] or [0])
    cols = max([j + 1 for row in grid for j, v in enumerate(row) if v is not None] or [0])
    return got == exp and ex.get_sheets_size()[0] == {'last_column': cols, 'last_row': rows} and ex.get_titles() == {'S': 0, 'T': 1}

def read_layout_all(p: List[bool]):
    """
    pre: len(p) == 9
    post: _ == True
    """
    grid = [[(11 + 3 * i + j) if p[3 * i + j] else None for j in range(3)] for i in range(3)]
    _CUR['wb'] = FBook([FSheet('S', grid), FSheet('T', [])])
    ex = X.Excel.parse('x')
    ok = True
    for r in range(4):
        for col in range(4):
            got = ex._fill_cell(Cell(0, col, r)).value
            exp = grid[r][col] if r < 3 and col < 3 else None
            ok = ok and (got == exp)
    rows = max([i + 1 for i, row in enumerate(grid) if any(v is not None for v in row)] or [0])
    cols = max([j + 1 for row in grid for j, v in enumerate(row) if v is not None] or [0])
    return ok and ex.get_sheets_size()[0] == {'last_column': cols, 'last_row': rows} and ex.get_titles() == {'S': 0, 'T': 1}
