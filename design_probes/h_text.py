from typing import List
from genrt import RT

def left_mid_rebuild(t: str, n: int) -> bool:
    """
    pre: len(t) <= 5 and 0 <= n < len(t)
    post: _ == True
    """
    return RT._left(t, n) + RT._mid(t, n + 1, len(t)) == t

def left_is_prefix(t: str, n: int) -> bool:
    """
    pre: len(t) <= 5 and 0 <= n
    post: _ == True
    """
    return RT._left(t, n) == t[:n]

def right_is_suffix(t: str, n: int) -> bool:
    """
    pre: len(t) <= 5 and 0 <= n
    post: _ == True
    """
    return RT._right(t, n) == (t[len(t)-n:] if n <= len(t) else t)

def mid_spec(t: str, k: int, n: int) -> bool:
    """
    pre: len(t) <= 5 and 1 <= k and 0 <= n
    post: _ == True
    """
    return RT._mid(t, k, n) == t[k-1:k-1+n]
