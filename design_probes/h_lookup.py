from typing import List, Tuple
from genrt import RT

def match_exact_first(keys: List[int], v: int):
    """
    pre: len(keys) <= 4
    post: _ == True
    """
    arr = [[k] for k in keys]
    got = RT._match(v, arr, 0)
    exp = (keys.index(v) + 1) if v in keys else '#N/A'
    return got == exp

def match_approx(keys: List[int], v: int):
    """
    pre: len(keys) <= 4 and all(keys[i] <= keys[i+1] for i in range(len(keys)-1))
    post: _ == True
    """
    arr = [[k] for k in keys]
    got = RT._match(v, arr, 1)
    le = [i for i, k in enumerate(keys) if k <= v]
    exp = (le[-1] + 1) if le else '#N/A'
    return got == exp

def vlookup_approx(keys: List[int], v: int):
    """
    pre: 1 <= len(keys) <= 4 and all(keys[i] <= keys[i+1] for i in range(len(keys)-1))
    post: _ == True
    """
    arr = [[k, 100 + i] for i, k in enumerate(keys)]
    got = RT._vlookup(v, arr, 2, True)
    le = [i for i, k in enumerate(keys) if k <= v]
    exp = (100 + le[-1]) if le else '#N/A'
    return got == exp

def address_col(col: int):
    """
    pre: 1 <= col <= 16384
    post: _ == True
    """
    # reference base-26 bijective
    n = col; s = ''
    while n > 0:
        n, r = divmod(n - 1, 26)
        s = chr(65 + r) + s
    return RT._address(1, col) == '$' + s + '$1'
