import datetime
from genrt2 import RT
def date_year_window_lo(y: int):
    """
    pre: -3 <= y <= 3
    post: _ == True
    """
    r = RT._date(y, 1, 1)
    if y < 0 or y > 9999:
        return r == '#NUM!'
    yy = y + 1900 if y <= 1899 else y
    return r == datetime.datetime(yy, 1, 1)
def date_year_window_mid(y: int):
    """
    pre: 1897 <= y <= 1902
    post: _ == True
    """
    r = RT._date(y, 1, 1)
    yy = y + 1900 if y <= 1899 else y
    return r == datetime.datetime(yy, 1, 1)
