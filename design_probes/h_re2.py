import re
import chplug
from excel2pycl.src.cell import Cell
from excel2pycl.src.tokens.regexp_tokens import CellIdentifierToken, LiteralToken

def cellid(s: str):
    """
    pre: len(s) <= 3
    post: _ == True
    """
    tok, rest = CellIdentifierToken.get(s, Cell(0, 0, 0))
    if tok is None:
        return True
    return tok.cell.column.isalpha() and tok.cell.row.isdigit() and not tok.cell.column.isalpha()

def cellid2(s: str):
    """
    pre: len(s) <= 4
    post: _ == True
    """
    tok, rest = CellIdentifierToken.get(s, Cell(0, 0, 0))
    if tok is None:
        return True
    return tok.cell.column.isalpha() and tok.cell.row.isdigit()
