import warnings
warnings.simplefilter('ignore')
from excel2pycl.src.context import Context
_c = Context(); _c._titles = {}; _c._sheets_size = []
SRC = _c.build_class()
import os, importlib.util, sys
_p = os.path.join(os.path.dirname(__file__), '_gen_runtime.py')
open(_p, 'w').write(SRC)
spec = importlib.util.spec_from_file_location('_gen_runtime', _p)
mod = importlib.util.module_from_spec(spec); sys.modules['_gen_runtime'] = mod
spec.loader.exec_module(mod)
ExcelInPython = mod.ExcelInPython
RT = ExcelInPython()
