import re
import chplug
from genrt import RT
from excel2pycl.src.excel import Excel
from excel2pycl.src.cell import Cell
from excel2pycl.src.handle_cell import handle_cell
import openpyxl.utils
from crosshair import register_patch

def _col_model(s):
    n = 0
    for ch in s.upper():
        if not ('A' <= ch <= 'Z'):
            raise ValueError(s)
        n = n * 26 + (ord(ch) - 64)
    if not (1 <= n <= 18278):
        raise ValueError(s)
    return n
register_patch(openpyxl.utils.column_index_from_string, _col_model)

def hc(col: str, row: int):
    """
    pre: 1 <= len(col) <= 3 and all('A' <= ch <= 'Z' for ch in col) and 1 <= row <= 99999
    post: _ == True
    """
    c = Cell('S', col, str(row))
    handle_cell(c, {'S': 0})
    n = 0
    for ch in col:
        n = n * 26 + (ord(ch) - 64)
    return c.column == n - 1 and c.row == row - 1 and c.title == 0

def value_int(n: int):
    """
    pre: -99999 <= n <= 99999
    post: _ == True
    """
    return RT._value(str(n)) == n

def susp(s: str):
    """
    pre: len(s) <= 5 and all(32 <= ord(c) < 127 for c in s)
    post: _ == True
    """
    got = len(Excel._get_suspicious_constructions(s)) > 0
    # three-valued oracle
    has_call = False; only_upper = True; any_upper_paren = False
    for i, ch in enumerate(s):
        if ch == '(' and i > 0 and ')' in s[i + 1:]:
            p = s[i - 1]
            if p.isalnum() or p == '_':
                has_call = True
                j = i - 1
                while j >= 0 and (s[j].isalnum() or s[j] == '_'):
                    j -= 1
                ident = s[j + 1:i]
                if not (ident.isalpha() and ident.isupper()):
                    only_upper = False
        if ch == '(' and i > 0 and 'A' <= s[i - 1] <= 'Z':
            any_upper_paren = True
    if not has_call or only_upper:
        return got is False
    if not any_upper_paren:
        return got is True
    return True
