import sys, re
from mkwb import translate
forms = sys.argv[1:]
s1 = {(0, 0): 1, (1, 0): 2, (0, 1): 3, (1, 1): 4, (0,2): 5}
s2 = {(0, 0): 10, (1, 0): 20, (0, 1): 30, (1, 1): 40}
for i, f in enumerate(forms):
    s1[(4, i)] = f
try:
    src = translate([('S', s1), ('My Sheet', s2)])
except Exception as e:
    import traceback; traceback.print_exc(); sys.exit()
tail = src.split("return '#VALUE!'\n")[-1]
for m in re.finditer(r"def (_0_4_\d+\w*|_\d_\d_\d_\d)\(self\):\n\s+return (.*)", tail):
    print(m.group(1), '=>', m.group(2))
