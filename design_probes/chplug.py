import re
from crosshair import register_patch

def _findall(pattern, string, flags=0):
    cp = re.compile(pattern, flags)
    out = []
    for m in cp.finditer(string):
        if cp.groups == 0:
            out.append(m.group(0))
        elif cp.groups == 1:
            out.append(m.group(1) if m.group(1) is not None else '')
        else:
            out.append(tuple((g if g is not None else '') for g in m.groups()))
    return out

register_patch(re.findall, _findall)

# CrossHair's _Match.groups() lacks the `default` parameter the runtime uses
from crosshair.libimpl import relib as _relib
_orig_groups = _relib._Match.groups
def _groups(self, default=None):
    return tuple(default if g is None else g for g in _orig_groups(self))
_relib._Match.groups = _groups
