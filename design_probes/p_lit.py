import z3, time, warnings, builtins
warnings.simplefilter('ignore')
import excel2pycl.src.tokens.regexp_tokens as RT
from excel2pycl.src.cell import Cell
F = z3.Float64(); RNE = z3.RNE()
REG = {}
class SymDigits:
    """a symbolic run of k decimal digits with value term v (BitVec 64)"""
    def __init__(self, k, v): self.k = k; self.v = v; self.tag = '\x00D%d\x00' % len(REG); REG[self.tag] = self
    def __bool__(self): return True
    def __format__(self, spec): return self.tag
    def __str__(self): return self.tag
class SymNum:
    """number proxy: kind 'int' (integral FP term, exact) or 'float'"""
    def __init__(self, t, kind): self.t = t; self.kind = kind
    def _c(self, o):
        if isinstance(o, SymNum): return o
        if isinstance(o, int): return SymNum(z3.FPVal(o, F), 'int')
        if isinstance(o, float): return SymNum(z3.FPVal(o, F), 'float')
        raise TypeError(o)
    def __add__(self, o): o = self._c(o); return SymNum(z3.fpAdd(RNE, self.t, o.t), 'int' if self.kind == o.kind == 'int' else 'float')
    __radd__ = __add__
    def __mul__(self, o): o = self._c(o); return SymNum(z3.fpMul(RNE, self.t, o.t), 'int' if self.kind == o.kind == 'int' else 'float')
    __rmul__ = __mul__
def to_fp(bv): return z3.fpSignedToFP(RNE, bv, F)
def s_int(x, *a):
    if isinstance(x, SymDigits): return SymNum(to_fp(x.v), 'int')
    return builtins.int(x, *a)
def s_float(x):
    if isinstance(x, str) and '\x00D' in x:
        assert x.startswith('0.'), x
        d = REG[x[2:]]
        return SymNum(z3.fpDiv(RNE, to_fp(d.v), z3.FPVal(10 ** d.k, F)), 'float')
    return builtins.float(x)
def s_str(x):
    if isinstance(x, SymNum):
        tag = '\x00N%d\x00' % len(REG); REG[tag] = x; return tag
    return builtins.str(x)
RT.int = s_int; RT.float = s_float; RT.str = s_str     # shadow builtins through module globals

def check(k, e, ibits=20):
    REG.clear()
    I = z3.BitVec('I', 64); Fr = z3.BitVec('Fr', 64)
    S = z3.Solver(); S.add(z3.ULT(I, 2 ** ibits), z3.ULT(Fr, 10 ** k))
    groups = ['whole', '', SymDigits(6, I), 'x', '.', SymDigits(k, Fr), ('e' if e is not None else ''), (str(e) if e is not None else ''), '', '', '', '']
    tok = RT.LiteralToken(tuple(groups), Cell(0, 0, 0))
    got = REG[tok.value]
    # reference: nearest double of (I*10^k + Fr) * 10^e / 10^k
    num = I * (10 ** k) + Fr
    ee = (e or 0) - k
    ref = z3.fpMul(RNE, to_fp(num), z3.FPVal(10 ** ee, F)) if ee >= 0 else z3.fpDiv(RNE, to_fp(num), z3.FPVal(10 ** (-ee), F))
    S.add(z3.Not(z3.fpEQ(got.t, ref)))
    t = time.time(); r = S.check(); dt = time.time() - t
    w = ''
    if r == z3.sat:
        m = S.model(); i = m.eval(I, True).as_long(); f = m.eval(Fr, True).as_long()
        text = f'{i}.{f:0{k}d}' + (f'e{e}' if e is not None else '')
        real = RT.LiteralToken.get(text, Cell(0, 0, 0))
        w = f'{text}: impl {REG.get(real[0].value, real[0].value) if real[0] else None} vs float {builtins.float(text)!r}'
    print(f'k={k} e={e}: {r} {dt:.1f}s {w}')
for k, e in [(1, None), (2, None), (1, -1), (2, 2)]:
    check(k, e)
