from typing import List, Tuple
from mkwb import translate, load
from excel2pycl import Executor, Cell
K = load(translate([('S', {(0, 0): 1, (1, 0): 2, (2, 0): '=A1+B1'})]), 'gen_exec')

def last_write_wins(v1: int, v2: int):
    """
    post: _ == True
    """
    ex = Executor().set_executed_class(class_object=K)
    ex.set_cells([Cell(0, 0, 0, v1)])
    ex.set_cells([Cell(0, 0, 0, v2)])
    return ex.get_cell(Cell(0, 2, 0)).value == v2 + 2

def hist(ws: List[Tuple[int, int]]):
    """
    pre: len(ws) <= 3 and all(0 <= w[0] <= 1 for w in ws)
    post: _ == True
    """
    ex = Executor().set_executed_class(class_object=K)
    model = {0: 1, 1: 2}
    for (i, v) in ws:
        ex.set_cells([Cell(0, i, 0, v)])
        model[i] = v
    return ex.get_cell(Cell(0, 2, 0)).value == model[0] + model[1]
