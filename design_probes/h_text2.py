from typing import List
from genrt import RT

def left_is_prefix(t: str, n: int) -> bool:
    """
    pre: len(t) <= 4 and 0 <= n <= 6
    post: _ == True
    """
    return RT._left(t, n) == t[:n]

def mid_spec(t: str, k: int, n: int) -> bool:
    """
    pre: len(t) <= 4 and 1 <= k <= 6 and 0 <= n <= 6
    post: _ == True
    """
    return RT._mid(t, k, n) == t[k-1:k-1+n]
