import datetime
from genrt import RT

def date_spec(y: int, m: int, d: int):
    """
    pre: 1990 <= y <= 2030 and 1 <= m <= 12 and 1 <= d <= 28
    post: _ == True
    """
    return RT._date(y, m, d) == datetime.datetime(y, m, d)

def date_spec_wide(y: int, m: int, d: int):
    """
    pre: 1990 <= y <= 2030 and -12 <= m <= 24 and -40 <= d <= 70
    post: _ == True
    """
    yy = y + (m - 1) // 12
    mm = (m - 1) % 12 + 1
    exp = datetime.datetime(yy, mm, 1) + datetime.timedelta(days=d - 1)
    return RT._date(y, m, d) == exp
