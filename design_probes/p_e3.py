import ast, itertools, sys, time, warnings
warnings.simplefilter('ignore')
import z3
from excel2pycl.src.excel import Excel
from excel2pycl.src.context import Context
from excel2pycl.src.cell import Cell
from excel2pycl.src.translators import CellTranslator
from excel2pycl.src.exceptions import E2PyclException

V = z3.DeclareSort('V')
def uf(name, n): return z3.Function(name, *([V] * (n + 1)))
ADD, SUB, MUL, DIV = uf('add', 2), uf('sub', 2), uf('mul', 2), uf('div', 2)
NEG, POS, TOSTR, PCT = uf('neg', 1), uf('pos', 1), uf('tostr', 1), uf('pct', 1)
CMP = {op: uf('cmp' + str(i), 2) for i, op in enumerate(['==', '!=', '<', '<=', '>', '>='])}
LEAF = {}
def leaf(name):
    if name not in LEAF: LEAF[name] = z3.Const(name, V)
    return LEAF[name]
HUNDRED = leaf('c100')

# ---- emitted python -> term
def py2term(node):
    if isinstance(node, ast.Expression): return py2term(node.body)
    if isinstance(node, ast.BinOp):
        l, r = py2term(node.left), py2term(node.right)
        return {ast.Add: ADD, ast.Sub: SUB, ast.Mult: MUL, ast.Div: DIV}[type(node.op)](l, r)
    if isinstance(node, ast.UnaryOp):
        return {ast.USub: NEG, ast.UAdd: POS}[type(node.op)](py2term(node.operand))
    if isinstance(node, ast.Constant):
        return leaf('k_' + repr(node.value))
    if isinstance(node, ast.Call):
        f = node.func
        if isinstance(f, ast.Name) and f.id == 'str': return TOSTR(py2term(node.args[0]))
        if isinstance(f, ast.Attribute) and f.attr == '_cell_preprocessor': return leaf(node.args[0].value)
        if isinstance(f, ast.Attribute) and f.attr == '_compare':
            return CMP[node.args[0].value](py2term(node.args[1]), py2term(node.args[2]))
        if isinstance(f, ast.Attribute) and f.attr == '_normalize_float_number':
            a = node.args[0]
            if isinstance(a, ast.BinOp) and isinstance(a.op, ast.Div) and isinstance(a.right, ast.Constant) and a.right.value == 100:
                return PCT(py2term(a.left))
            return py2term(a)       # normalisation = identity (15-digit tolerance)
    raise ValueError(ast.dump(node))

# ---- reference: precedence climbing over formula text tokens
def tokenize(f):
    out = []; i = 0
    while i < len(f):
        c = f[i]
        if c.isalpha():
            j = i
            while j < len(f) and f[j].isalnum(): j += 1
            out.append(('ref', f[i:j])); i = j
        elif c.isdigit():
            j = i
            while j < len(f) and (f[j].isdigit() or f[j] == '.'): j += 1
            out.append(('num', f[i:j])); i = j
        elif f[i:i+2] in ('<>', '<=', '>='): out.append(('op', f[i:i+2])); i += 2
        else: out.append(('op', c)); i += 1
    return out
PREC = {'=': 1, '<>': 1, '<': 1, '<=': 1, '>': 1, '>=': 1, '&': 2, '+': 3, '-': 3, '*': 4, '/': 4}
PYOP = {'=': '==', '<>': '!='}
class RefParser:
    def __init__(self, toks, uid): self.t = toks; self.i = 0; self.uid = uid
    def peek(self): return self.t[self.i] if self.i < len(self.t) else (None, None)
    def eat(self): x = self.t[self.i]; self.i += 1; return x
    def expr(self, minp=1):
        l = self.unary()
        while True:
            k, v = self.peek()
            if k == 'op' and v in PREC and PREC[v] >= minp:
                self.eat(); r = self.expr(PREC[v] + 1)
                if v == '&': l = ADD(TOSTR(l), TOSTR(r))
                elif v in ('+', '-', '*', '/'): l = {'+': ADD, '-': SUB, '*': MUL, '/': DIV}[v](l, r)
                else: l = CMP[PYOP.get(v, v)](l, r)
            else: return l
    def unary(self):
        k, v = self.peek()
        if k == 'op' and v in '+-':
            self.eat(); x = self.unary()
            return NEG(x) if v == '-' else POS(x)
        return self.postfix()
    def postfix(self):
        k, v = self.eat()
        if k == 'op' and v == '(':
            x = self.expr(); assert self.eat() == ('op', ')')
        elif k == 'ref': x = leaf(self.uid[v])
        elif k == 'num': x = leaf('k_' + repr(float(v) if '.' in v else int(v)))
        else: raise ValueError((k, v))
        while self.peek() == ('op', '%'):
            self.eat(); x = PCT(x)
        return x

OPS = ['+', '-', '*', '/', '&', '=', '<>', '<', '<=', '>', '>=']
SL = ['A1', 'B1', 'C1', 'D1']
UID = {'A1': '_0_0_0', 'B1': '_0_1_0', 'C1': '_0_2_0', 'D1': '_0_3_0'}
def family(n):
    for ops in itertools.product(OPS, repeat=n):
        base = [SL[0]]
        for i, o in enumerate(ops): base += [o, SL[i + 1]]
        yield ''.join(base), 'plain'
        for i in range(n + 1):
            for dec, fn in (('neg', lambda s: '-' + s), ('pos', lambda s: '+' + s), ('pct', lambda s: s + '%'), ('par', lambda s: '(' + s + ')'), ('parpct', lambda s: '(' + s + ')%'), ('negpct', lambda s: '-' + s + '%')):
                b = list(base); b[2 * i] = fn(b[2 * i]); yield ''.join(b), f'{dec}@{i}'
        for i in range(n + 1):
            for j in range(i + 1, n + 1):
                if (i, j) == (0, n): continue
                b = list(base); b[2 * i] = '(' + b[2 * i]; b[2 * j] = b[2 * j] + ')'; yield ''.join(b), f'grp{i}-{j}'

def translate(forms):
    row = [1, 2, 3, 4] + ['=' + f for f in forms]
    ex = Excel({'data': [[row]], 'titles': ['S'], 'suspicious_cells': {}, 'sheets_size': [{'last_column': len(row), 'last_row': 1}]})
    out = []
    for k, f in enumerate(forms):
        ctx = Context()
        try:
            CellTranslator.translate(Cell(0, 4 + k, 0), ex, ctx)
            out.append(ctx._cell_translations[f'_0_{4 + k}_0'])
        except E2PyclException as e:
            out.append(('REJECT', type(e).__name__))
        except Exception as e:
            out.append(('FOREIGN', type(e).__name__))
    return out

n = int(sys.argv[1])
forms = list(family(n))
t0 = time.time()
codes = translate([f for f, _ in forms])
S = z3.Solver()
from collections import Counter
stat = Counter(); bad = []
for (f, tag), code in zip(forms, codes):
    if isinstance(code, tuple):
        stat[code[0]] += 1; bad.append((f, tag, code)); continue
    try:
        et = py2term(ast.parse(code, mode='eval'))
    except Exception as e:
        stat['UNPARSED'] += 1; bad.append((f, tag, code)); continue
    rt = RefParser(tokenize(f), UID).expr()
    S.push(); S.add(et != rt); r = S.check(); S.pop()
    if r == z3.unsat: stat['same'] += 1
    else: stat['differ'] += 1; bad.append((f, tag, code))
print('n', n, 'formulas', len(forms), dict(stat), '%.1fs' % (time.time() - t0))
bytag = Counter(tag.split('@')[0] for f, tag, c in bad)
print('bad by decoration', dict(bytag))
for f, tag, c in bad[:int(sys.argv[2]) if len(sys.argv) > 2 else 12]:
    print('  ', f, tag, '=>', c)
