from mkwb import translate, load
_forms = ['=-A1+B1', '=A1-B1-C1', '=A1*(B1+C1)', '=A1+1>B1*2', '=(A1+B1)*C1-A1/4']
_cells = {(0, 0): 1, (1, 0): 2, (2, 0): 3}
for _i, _f in enumerate(_forms):
    _cells[(3, _i)] = _f
K = load(translate([('S', _cells)]), 'gen_expr')

def _ev(uid, a, b, c):
    inst = K([{'uid': '_0_0_0', 'value': a}, {'uid': '_0_1_0', 'value': b}, {'uid': '_0_2_0', 'value': c}])
    return inst.exec_function_in(uid)

def f0(a: int, b: int, c: int):
    """ post: _ == True """
    return _ev('_0_3_0', a, b, c) == -a + b

def f1(a: int, b: int, c: int):
    """ post: _ == True """
    return _ev('_0_3_1', a, b, c) == (a - b) - c

def f2(a: int, b: int, c: int):
    """ post: _ == True """
    return _ev('_0_3_2', a, b, c) == a * (b + c)

def f3(a: int, b: int, c: int):
    """ post: _ == True """
    return _ev('_0_3_3', a, b, c) == ((a + 1) > (b * 2))

def f4(a: int, b: int, c: int):
    """ post: _ == True """
    return _ev('_0_3_4', a, b, c) == (a + b) * c - a / 4
