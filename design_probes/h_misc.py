import datetime, calendar
import chplug
from genrt import RT
from mkwb import translate, load

def datedif_m(m1: int, d1: int, m2: int, d2: int):
    """
    pre: 1 <= m1 <= 12 and 1 <= m2 <= 12 and 1 <= d1 <= 28 and 1 <= d2 <= 28
    post: _ == True
    """
    a = datetime.datetime(2023, m1, d1); b = datetime.datetime(2024, m2, d2)
    got = RT._datedif(a, b, 'M')
    exp = 12 + (m2 - m1) - (1 if d2 < d1 else 0)
    return got == exp

def datedif_y(m1: int, d1: int, m2: int, d2: int):
    """
    pre: 1 <= m1 <= 12 and 1 <= m2 <= 12 and 1 <= d1 <= 28 and 1 <= d2 <= 28
    post: _ == True
    """
    a = datetime.datetime(2020, m1, d1); b = datetime.datetime(2024, m2, d2)
    got = RT._datedif(a, b, 'Y')
    exp = 4 - (1 if (m2, d2) < (m1, d1) else 0)
    return got == exp

def networkdays(d: int, n: int):
    """
    pre: 1 <= d <= 20 and 0 <= n <= 9
    post: _ == True
    """
    a = datetime.datetime(2024, 3, d); b = a + datetime.timedelta(days=n)
    got = RT._network_days(a, b, None)
    exp = sum(1 for i in range(n + 1) if (a + datetime.timedelta(days=i)).weekday() < 5)
    return got == exp

def search_wild(t: str):
    """
    pre: len(t) <= 3 and all(c in 'abAB.' for c in t)
    post: _ == True
    """
    got = RT._search('a?b', t, None)
    exp = '#VALUE!'
    tl = t.lower()
    for i in range(len(tl) - 2):
        if tl[i] == 'a' and tl[i + 2] == 'b':
            exp = i + 1
            break
    return got == exp

_K = load(translate([('S', {(0, 0): 1, (1, 0): 2, (2, 0): '=IFERROR(A1/B1,-1)', (2, 1): '=IF(A1>B1,A1/B1,B1)', (2, 2): '=IFS(A1>B1,1,A1<B1,2)'})]), 'gen_if')
def iferror_div(a: int, b: int):
    """
    pre: -5 <= a <= 5 and -5 <= b <= 5
    post: _ == True
    """
    inst = _K([{'uid': '_0_0_0', 'value': a}, {'uid': '_0_1_0', 'value': b}])
    return inst.exec_function_in('_0_2_0') == (-1 if b == 0 else a / b)

def if_lazy(a: int, b: int):
    """
    post: _ == True
    """
    inst = _K([{'uid': '_0_0_0', 'value': a}, {'uid': '_0_1_0', 'value': b}])
    return inst.exec_function_in('_0_2_1') == (a / b if a > b else b)

def ifs_pair(a: int, b: int):
    """
    post: _ == True
    """
    inst = _K([{'uid': '_0_0_0', 'value': a}, {'uid': '_0_1_0', 'value': b}])
    return inst.exec_function_in('_0_2_2') == (1 if a > b else 2 if a < b else '#N/A')
