import datetime
from genrt import RT

def date_spec_y2024(m: int, d: int):
    """
    pre: 1 <= m <= 12 and 1 <= d <= 28
    post: _ == True
    """
    return RT._date(2024, m, d) == datetime.datetime(2024, m, d)
