from typing import List
import excel2pycl.src.translators.cell_translator as CT
import excel2pycl.src.lexer as LX
import excel2pycl.src.ast_builder as AB
import excel2pycl.src.translators.entry_point_token_translator as EP
from excel2pycl.src.cell import Cell
from excel2pycl.src.context import Context
from excel2pycl.src.excel import Excel
from excel2pycl.src.exceptions import E2PyclParserException

N = 3
_ADJ = {}
class _Lex:
    @classmethod
    def parse(cls, value, in_cell): return in_cell
class _Ast:
    @classmethod
    def parse(cls, lexer, in_cell): return in_cell
class _EP:
    @classmethod
    def translate(cls, ast, excel, context):
        i = ast.column
        parts = []
        for j in range(N):
            if _ADJ['m'][i * N + j]:
                parts.append(CT.CellTranslator.translate(Cell(0, j, 0), excel, context))
        return '+'.join(parts) or '0'
LX.Lexer = _Lex; AB.AstBuilder = _Ast; EP.EntryPointTokenTranslator = _EP

def _reach(m, e):
    seen = {e}; stack = [e]; cyc = False
    # cycle reachable from e <=> DFS finds a back edge
    color = {}
    def dfs(u):
        color[u] = 1
        c = False
        for v in range(N):
            if m[u * N + v]:
                if color.get(v) == 1: c = True
                elif v not in color: c = dfs(v) or c
        color[u] = 2
        return c
    cyc = dfs(e)
    return set(color), cyc

def closure(m: List[bool], e: int):
    """
    pre: len(m) == N * N and 0 <= e < N
    post: _ == True
    """
    _ADJ['m'] = m
    excel = Excel({'data': [[['=f'] * N]], 'titles': ['S'], 'suspicious_cells': {}, 'sheets_size': [{'last_column': N, 'last_row': 1}]})
    ctx = Context()
    reach, cyc = _reach(m, e)
    try:
        CT.CellTranslator.translate(Cell(0, e, 0), excel, ctx)
    except E2PyclParserException:
        return cyc
    except RecursionError:
        return False
    return (not cyc) and set(ctx._cell_translations) == {f'_0_{j}_0' for j in reach}
