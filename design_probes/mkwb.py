import warnings; warnings.simplefilter('ignore')
import os, sys, tempfile, importlib.util
from openpyxl import Workbook
from excel2pycl import Parser, Executor, Cell

def translate(sheets, name='wb', entry=None, safety=False):
    """sheets: list of (title, {(col,row): value}) 0-based coords"""
    wb = Workbook()
    first = True
    for title, cells in sheets:
        ws = wb.active if first else wb.create_sheet()
        ws.title = title
        first = False
        for (c, r), v in cells.items():
            ws.cell(row=r + 1, column=c + 1, value=v)
    d = tempfile.mkdtemp(prefix='e2p_')
    p = os.path.join(d, name + '.xlsx')
    wb.save(p)
    ps = Parser().set_excel_file_path(p)
    if not safety:
        ps.disable_safety_check()
    if entry:
        ps.set_entrypoint_cell(entry)
    src = ps.get_translation()
    return src

def load(src, modname):
    ns = {}
    code = compile(src, modname + '.py', 'exec')
    exec(code, ns)
    return ns['ExcelInPython']
