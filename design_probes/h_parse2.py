from typing import List
from h_parse import *

def parse_noforeign3(idx: List[int]):
    """
    pre: len(idx) == 3 and all(0 <= i < N for i in idx)
    post: _ == True
    """
    toks = [SymTok(IDX[T.EqOperatorToken])] + [SymTok(i) for i in idx]
    try:
        r, rest = T.EntryPointToken.get(toks, Cell(0, 0, 0))
    except E2PyclParserException:
        return True
    return True

def parse_noforeign5(idx: List[int]):
    """
    pre: len(idx) == 5 and all(0 <= i < N for i in idx)
    post: _ == True
    """
    toks = [SymTok(IDX[T.EqOperatorToken])] + [SymTok(i) for i in idx]
    try:
        r, rest = T.EntryPointToken.get(toks, Cell(0, 0, 0))
    except E2PyclParserException:
        return True
    return True
