"""generated runtime with bare excepts narrowed to `except Exception` (engine control exceptions are BaseException)"""
import ast, warnings, sys, os, importlib.util
warnings.simplefilter('ignore')
from excel2pycl.src.context import Context
def narrow(src):
    tree = ast.parse(src)
    for n in ast.walk(tree):
        if isinstance(n, ast.ExceptHandler) and n.type is None:
            n.type = ast.Name('Exception', ast.Load())
    ast.fix_missing_locations(tree)
    return ast.unparse(tree)
def load_src(src, name):
    ns = {'__name__': name}
    exec(compile(narrow(src), name + '.py', 'exec'), ns)
    return ns['ExcelInPython']
_c = Context(); _c._titles = {}; _c._sheets_size = []
RT = load_src(_c.build_class(), '_gen_rt2')()
