import sys, z3, time, warnings
warnings.simplefilter('ignore')
import excel2pycl.src.tokens as T
from excel2pycl.src.tokens.regexp_base_token import RegexpBaseToken
from excel2pycl.src.tokens.composite_base_token import CompositeBaseToken
from excel2pycl.src.cell import Cell
from excel2pycl.src.exceptions import E2PyclParserException
from lazyfork import Explorer

LEX = [c for c in RegexpBaseToken.subclasses() if c.__name__ not in ('UndefinedToken', 'WhitespaceToken')]
IDX = {c: i for i, c in enumerate(LEX)}
N = len(LEX)
COMPOSITES = set(CompositeBaseToken.subclasses())

def minimal(cls, depth=0):
    """shortest terminal expansion of a composite token class (list of lexical classes)"""
    best = None
    for ts in cls.get_token_sets():
        seq = []
        ok = True
        for t in ts:
            if t in IDX: seq.append(t)
            elif t is cls or depth > 6: ok = False; break
            else:
                m = minimal(t, depth + 1)
                if m is None: ok = False; break
                seq += m
        if ok and (best is None or len(seq) < len(best)): best = seq
    return best

def expand(ts, cls):
    seq = []
    for t in ts:
        if t in IDX: seq.append(t)
        else:
            m = minimal(t)
            if m is None: return None
            seq += m
    return seq

class _ClsProxy:
    def __init__(self, ex, var): self.ex = ex; self.var = var
    def __eq__(self, other):
        j = IDX.get(other) if isinstance(other, type) else None
        if j is None: return False
        if isinstance(self.var, int): return self.var == j
        return self.ex.fork(self.var == j)
    def __hash__(self): return 0
class SymTok:
    def __init__(self, ex, var):
        self._p = _ClsProxy(ex, var); self.value = ('x',)
    @property
    def __class__(self): return self._p

def run_one(base, pos, mode):
    """base: list of lexical classes (after '='); one symbolic token replaces/inserts at pos"""
    ex = Explorer(); n = 0; bad = 0; t0 = time.time()
    while True:
        ex.start_run()
        v = z3.Int('c'); ex.solver.add(v >= 0, v < N)
        toks = [SymTok(ex, IDX[T.EqOperatorToken])]
        for i, c in enumerate(base):
            if i == pos:
                toks.append(SymTok(ex, v))
                if mode == 'ins': toks.append(SymTok(ex, IDX[c]))
            else: toks.append(SymTok(ex, IDX[c]))
        if pos == len(base): toks.append(SymTok(ex, v))
        try:
            r, rest = T.EntryPointToken.get(toks, Cell(0, 0, 0))
            if r is None or len(rest): bad += 1
        except E2PyclParserException:
            pass
        ex.end_run(); n += 1
        if not ex.backtrack(): break
    return n, bad, ex.nqueries, time.time() - t0

cc = T.ControlConstructionCompositeBaseToken.get_token_sets()
tot_paths = tot_bad = tot_q = 0; tot_t = 0; inst = 0; harn = 0
lens = []
for (c,) in cc:
    for k, ts in enumerate(c.get_token_sets()):
        base = expand(ts, c)
        if base is None: print('no expansion', c.__name__, k); continue
        inst += 1; lens.append(len(base))
        if inst > int(sys.argv[1]): continue
        for pos in range(len(base) + 1):
            for mode in (('rep', 'ins') if pos < len(base) else ('app',)):
                n, bad, q, dt = run_one(base, pos, mode)
                tot_paths += n; tot_bad += bad; tot_q += q; tot_t += dt; harn += 1
print('instances', inst, 'avg len %.1f max %d' % (sum(lens) / len(lens), max(lens)))
print('ran harnesses', harn, 'paths', tot_paths, 'bad', tot_bad, 'queries', tot_q, 'time %.1f' % tot_t)
