from typing import List, Union, Optional
from mkwb import translate, load
V = Union[int, bool, str, None]
_cells = {(0, 0): 1, (1, 0): 2, (0, 1): 3, (1, 1): 4,
          (3, 0): '=SUM(A1:B2)', (3, 1): '=SUM(A1:A2,B1:B2)', (3, 2): '=COUNTBLANK(A1:B2)', (3, 3): '=MAX(A1:B2)', (3,4): '=AVERAGE(A1:B2)'}
K = load(translate([('S', _cells)]), 'gen_agg')

def _mk(vals):
    uids = ['_0_0_0', '_0_1_0', '_0_0_1', '_0_1_1']
    inst = K()
    args = []
    for u, v in zip(uids, vals):
        args.append({'uid': u, 'value': inst.EmptyCell() if v is None else v})
    inst.set_arguments(args)
    return inst

def _isnum(v):
    return isinstance(v, (int, float)) and not isinstance(v, bool)

def sum_rect(a: V, b: V, c: V, d: V):
    """ post: _ == True """
    inst = _mk([a, b, c, d])
    exp = sum(v for v in [a, b, c, d] if _isnum(v))
    return inst.exec_function_in('_0_3_0') == exp

def sum_split(a: V, b: V, c: V, d: V):
    """ post: _ == True """
    inst = _mk([a, b, c, d])
    return inst.exec_function_in('_0_3_0') == inst.exec_function_in('_0_3_1')

def countblank(a: V, b: V, c: V, d: V):
    """ post: _ == True """
    inst = _mk([a, b, c, d])
    exp = sum(1 for v in [a, b, c, d] if v is None or (isinstance(v, str) and v == ''))
    return inst.exec_function_in('_0_3_2') == exp
