from typing import Union
from genrt import RT

def cmp_int_exact(op: int, a: int, b: int) -> bool:
    """
    pre: 0 <= op < 6
    post: _ == True
    """
    ops = ['>=', '>', '<=', '<', '==', '!=']
    import operator
    fns = [operator.ge, operator.gt, operator.le, operator.lt, operator.eq, operator.ne]
    return RT._compare(ops[op], a, b) == fns[op](a, b)

def cmp_float_exact(a: float, b: float) -> bool:
    """
    pre: -1000.0 < a < 1000.0 and -1000.0 < b < 1000.0
    post: _ == True
    """
    return RT._compare('>', a, b) == (a > b)
