"""Minimal DFS path explorer: real code runs with proxy objects; each symbolic branch asks z3."""
import z3, time

class Explorer:
    def __init__(self):
        self.solver = z3.Solver()
        self.stack = []       # persistent: [taken, has_other]
        self.pos = 0
        self.nqueries = 0
    def start_run(self):
        self.pos = 0
        self.solver.push()
    def end_run(self):
        self.solver.pop()
        assert self.pos == len(self.stack), (self.pos, len(self.stack))
    def fork(self, cond):
        if self.pos < len(self.stack):
            taken = self.stack[self.pos][0]
            self.pos += 1
            self.solver.add(cond if taken else z3.Not(cond))
            return taken
        self.nqueries += 2
        self.solver.push(); self.solver.add(cond); t_ok = self.solver.check() == z3.sat; self.solver.pop()
        self.solver.push(); self.solver.add(z3.Not(cond)); f_ok = self.solver.check() == z3.sat; self.solver.pop()
        assert t_ok or f_ok
        taken = t_ok
        self.solver.add(cond if taken else z3.Not(cond))
        self.stack.append([taken, t_ok and f_ok]); self.pos += 1
        return taken
    def backtrack(self):
        while self.stack:
            if self.stack[-1][1]:
                self.stack[-1] = [not self.stack[-1][0], False]
                return True
            self.stack.pop()
        return False

def explore(run, max_paths=10**9):
    ex = Explorer()
    n = 0
    results = []
    t0 = time.time()
    while True:
        ex.start_run()
        out = run(ex)
        if out is not None:
            ex.solver.check(); results.append((out, ex.solver.model()))
        ex.end_run()
        n += 1
        if not ex.backtrack() or n >= max_paths:
            break
    return n, results, ex.nqueries, time.time() - t0
