import chplug
from genrt import RT
from mkwb import translate, load

def _wild(p, t):
    # reference: backtracking wildcard matcher, whole-string, case-insensitive; ~ escapes ? and *
    p = p.lower(); t = t.lower()
    def m(i, j):
        if i == len(p): return j == len(t)
        if p[i] == '~' and i + 1 < len(p) and p[i + 1] in '?*':
            return j < len(t) and t[j] == p[i + 1] and m(i + 2, j + 1)
        if p[i] == '*': return any(m(i + 1, k) for k in range(j, len(t) + 1))
        if p[i] == '?': return j < len(t) and m(i + 1, j + 1)
        return j < len(t) and t[j] == p[i] and m(i + 1, j + 1)
    return m(0, 0)

def search_wild(t: str):
    """
    pre: len(t) <= 3 and all(c in 'abAB.' for c in t)
    post: _ == True
    """
    got = RT._search('a?b', t, None)
    exp = '#VALUE!'
    tl = t.lower()
    for i in range(len(tl) - 2):
        if tl[i] == 'a' and tl[i + 2] == 'b':
            exp = i + 1
            break
    return got == exp

_K = load(translate([('S', {(0, 0): 'ab', (0, 1): 'b', (0, 2): 'c', (1, 0): 1, (1, 1): 2, (1, 2): 3, (2, 0): '=COUNTIFS(A1:A3,"a*")', (2, 1): '=SUMIF(A1:A3,"?b",B1:B3)'})]), 'gen_wild')
def countifs_wild(a0: str, a1: str, a2: str):
    """
    pre: all(len(x) <= 2 and all(c in 'abA.' for c in x) for x in [a0, a1, a2])
    post: _ == True
    """
    inst = _K([{'uid': '_0_0_0', 'value': a0}, {'uid': '_0_0_1', 'value': a1}, {'uid': '_0_0_2', 'value': a2}])
    return inst.exec_function_in('_0_2_0') == sum(1 for x in [a0, a1, a2] if _wild('a*', x))
