import warnings, sys; warnings.simplefilter('ignore')
from excel2pycl.src.excel import Excel
from excel2pycl.src.context import Context
from excel2pycl.src.cell import Cell
from excel2pycl.src.translators import CellTranslator
from excel2pycl.src.exceptions import E2PyclException
forms = ['=COUNT(1+2)', '=COUNT((1))', '=COUNT(A1,B1:C1,5,"7",TRUE)', '=COLUMN(A1:C1)', '=SUMIF(A1,">1")', '=INDEX((A1:B1,B1:C1),1,1,2)', '=ADDRESS(1,1,4)',
         '=TEXT(A1,"0.0")', '=XMATCH(1,A1:C1)', '=XMATCH(1,A1:C1,0)', '=MATCH(1,A1:C1)', '=ROUNDUP(A1,)', '=ROUNDUP(1.5)', '=LEFT("abc")', '=IF(A1,1)', '=NETWORKDAYS(A1,B1,A1:C1)',
         '=VLOOKUP(1,A1:C1,2)', '=SUM(Z!A1)', "=SUM('S'!A1:B1)", '=A1:B', '=SUM(A:B)', '=1 2', '=)', '=', '="it\'s"', '=IFS(A1>1,"a")', '=AND(A1)', '=DATEDIF(A1,B1,"D")', '=SEARCH("a","b",0)',
         '=-"a"', '=TRUE()', '=TRUE', '=1=1', '=A1%%', '=COUNTIFS(A1:C1,"a*",A1:C1,"b")', '=SUMIFS(A1:C1,A1:C1,">1",A1:C1,"<5")', '=AVERAGEIFS(A1:C1,A1:C1,"x")', '=COUNTBLANK(A1:C1)', '=CONCATENATE(A1,"x",1)', '=VALUE("1")',
         '=EOMONTH(A1,1)', '=EDATE(A1,1)', '=TODAY()', '=YEAR(A1)', '=DATE(2020,1,1)', '=MID("abc",1,2)', '=RIGHT("abc",2)', '=ROUND(1.234,2)', '=ROUNDDOWN(1.5,0)', '=MAX(A1:C1)', '=MIN(1,2)', '=OR(A1,B1)', '=AVERAGE(A1:C1)', '=IFERROR(A1,1)']
row = [1, 2, 3] + forms
ex = Excel({'data': [[row]], 'titles': ['S'], 'suspicious_cells': {}, 'sheets_size': [{'last_column': len(row), 'last_row': 1}]})
for k, f in enumerate(forms):
    ctx = Context(); ctx._titles = {'S': 0}; ctx._sheets_size = []
    try:
        CellTranslator.translate(Cell(0, 3 + k, 0), ex, ctx)
        src = ctx.build_class()
        try:
            compile(src, 'x', 'exec'); st = 'ok'
        except SyntaxError as e:
            st = 'SYNTAXERROR'
        code = ctx._cell_translations[f'_0_{3 + k}_0']
        print(f'{f:45s} {st:12s} {code[:90]}')
    except E2PyclException as e:
        print(f'{f:45s} library:{type(e).__name__}')
    except Exception as e:
        print(f'{f:45s} FOREIGN:{type(e).__name__}: {str(e)[:60]}')
