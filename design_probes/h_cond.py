from typing import List, Union, Optional
from mkwb import translate, load
V = Union[int, str, None]
_cells = {(0, 0): 1, (0, 1): 2, (0, 2): 3, (1, 0): 10, (1, 1): 20, (1, 2): 30, (2, 0): 2,
          (3, 0): '=SUMIF(A1:A3,">1",B1:B3)', (3, 1): '=SUMIFS(B1:B3,A1:A3,">"&C1)', (3, 2): '=COUNTIFS(A1:A3,"x")',
          (3, 3): '=SUMIF(A1:A3,2,B1:B3)', (3, 4): '=AVERAGEIFS(B1:B3,A1:A3,">1")'}
SRC = translate([('S', _cells)])
K = load(SRC, 'gen_cond')
UA = ['_0_0_0', '_0_0_1', '_0_0_2']; UB = ['_0_1_0', '_0_1_1', '_0_1_2']

def _mk(a, b, c=None):
    inst = K()
    args = [{'uid': u, 'value': inst.EmptyCell() if v is None else v} for u, v in zip(UA, a)]
    args += [{'uid': u, 'value': v} for u, v in zip(UB, b)]
    if c is not None: args.append({'uid': '_0_2_0', 'value': c})
    inst.set_arguments(args)
    return inst

def sumif_gt(a0: int, a1: int, a2: int, b0: int, b1: int, b2: int):
    """ post: _ == True """
    inst = _mk([a0, a1, a2], [b0, b1, b2])
    return inst.exec_function_in('_0_3_0') == sum(b for a, b in zip([a0, a1, a2], [b0, b1, b2]) if a > 1)

def sumifs_cellcrit(a0: int, a1: int, a2: int, b0: int, b1: int, b2: int, c: int):
    """ post: _ == True """
    inst = _mk([a0, a1, a2], [b0, b1, b2], c)
    return inst.exec_function_in('_0_3_1') == sum(b for a, b in zip([a0, a1, a2], [b0, b1, b2]) if a > c)

def countifs_text(a0: V, a1: V, a2: V):
    """
    pre: all(x is None or isinstance(x, int) or len(x) <= 2 for x in [a0, a1, a2])
    post: _ == True
    """
    inst = _mk([a0, a1, a2], [0, 0, 0])
    return inst.exec_function_in('_0_3_2') == sum(1 for a in [a0, a1, a2] if isinstance(a, str) and a.lower() == 'x')

def sumif_eq_num(a0: V, a1: V, a2: V, b0: int, b1: int, b2: int):
    """
    pre: all(x is None or isinstance(x, int) or len(x) <= 2 for x in [a0, a1, a2])
    post: _ == True
    """
    inst = _mk([a0, a1, a2], [b0, b1, b2])
    return inst.exec_function_in('_0_3_3') == sum(b for a, b in zip([a0, a1, a2], [b0, b1, b2]) if isinstance(a, int) and a == 2)
