import ast, warnings, inspect
warnings.simplefilter('ignore')
from excel2pycl.src.context import Context
import excel2pycl.src.utilities.abstract_excel_in_python_class as A
c = Context(); c._titles = {}; c._sheets_size = []
gen = ast.parse(c.build_class()); ab = ast.parse(inspect.getsource(A))
def cls(tree, name): return [n for n in tree.body if isinstance(n, ast.ClassDef) and n.name == name][0]
def norm(fn):
    fn = ast.parse(ast.unparse(fn)).body[0]
    for n in ast.walk(fn):
        if isinstance(n, (ast.FunctionDef,)):
            n.returns = None
            for a in n.args.args + n.args.kwonlyargs + ([n.args.vararg] if n.args.vararg else []) + ([n.args.kwarg] if n.args.kwarg else []): a.annotation = None
            if n.body and isinstance(n.body[0], ast.Expr) and isinstance(n.body[0].value, ast.Constant) and isinstance(n.body[0].value.value, str): n.body = n.body[1:] or [ast.Pass()]
        if isinstance(n, ast.AnnAssign): pass
    return ast.dump(fn)
def members(c):
    out = {}
    for n in c.body:
        if isinstance(n, ast.FunctionDef): out[n.name] = norm(n)
        if isinstance(n, ast.ClassDef):
            for m in n.body:
                if isinstance(m, ast.FunctionDef): out[n.name + '.' + m.name] = norm(m)
    return out
g = members(cls(gen, 'ExcelInPython')); a = members(cls(ab, 'AbstractExcelInPython'))
print('only generated:', sorted(set(g) - set(a))); print('only abstract:', sorted(set(a) - set(g)))
print('same AST:', sum(1 for k in g if k in a and g[k] == a[k]), 'differ:', [k for k in g if k in a and g[k] != a[k]])
