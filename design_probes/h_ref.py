import chplug
from excel2pycl.src.cell import Cell
from excel2pycl.src.tokens.regexp_tokens import CellIdentifierToken, MatrixOfCellIdentifiersToken

def cell_ref(a: int, b: int, d1: int, d2: int, abs1: bool, abs2: bool, tail: str):
    """
    pre: 0 <= a < 26 and 0 <= b < 26 and 1 <= d1 <= 9 and 0 <= d2 <= 9 and len(tail) <= 1 and all(32 <= ord(c) < 127 for c in tail)
    post: _ == True
    """
    col = chr(65 + a) + chr(65 + b)
    row = chr(48 + d1) + chr(48 + d2)
    text = ('$' if abs1 else '') + col + ('$' if abs2 else '') + row + tail
    tok, rest = CellIdentifierToken.get(text, Cell(7, 0, 0))
    if tail and (tail.isdigit() or tail == ':'):
        return True     # a different token is intended
    if tok is None:
        return False
    c = tok.cell
    return c.title == 7 and c.column == col and c.row == row and rest == tail

def matrix_ref(a: int, b: int, d1: int, d2: int, t: str):
    """
    pre: 0 <= a < 26 and 0 <= b < 26 and 1 <= d1 <= 9 and 1 <= d2 <= 9 and 1 <= len(t) <= 2 and all(c in 'aZ_9 ' for c in t)
    post: _ == True
    """
    c1 = chr(65 + a); c2 = chr(65 + b)
    text = "'" + t + "'!" + c1 + chr(48 + d1) + ':$' + c2 + '$' + chr(48 + d2)
    tok, rest = MatrixOfCellIdentifiersToken.get(text, Cell(7, 0, 0))
    if tok is None:
        return False
    m0, m1 = tok.matrix
    return m0.title == t and m1.title == t and m0.column == c1 and m1.column == c2 and m0.row == chr(48 + d1) and m1.row == chr(48 + d2) and rest == ''
