#!/usr/bin/env python3
"""Regenerates MANIFEST.json from the table below (kept valid at all times; validated against the schema)."""
import json
import os

V = os.path.dirname(os.path.dirname(os.path.abspath(__file__)))

CHECKS = {
    'C14': dict(
        category='other',
        text=('Bounded symbolic execution (CrossHair + z3) of the real lookup helpers of the regenerated runtime class and of '
              'classes emitted by the real Parser for MATCH/XMATCH/VLOOKUP/INDEX/ADDRESS/COLUMN formulas; key columns (len<=4/5), '
              'lookup values, indices and table cells symbolic; verdict per condition is "confirmed over all paths" or a '
              'replayed counterexample. A bounded verdict, not a proof.'),
        design_ref='DESIGN.md section 5 / C14',
        note=('Trusts CrossHair 0.0.110 models of int/str/list and z3; key columns longer than the bound, wildcard/binary-search '
              'XMATCH modes, mixed-type and horizontal key vectors are outside the claim; bare excepts of the loaded runtime copy are narrowed.'),
        technique='symbolic execution of the real Python code (CrossHair/z3), per-condition solver verdict',
        engine='E1',
    ),
    'C10': dict(
        category='other',
        text=('Bounded symbolic execution (CrossHair + z3) of the real _compare/_by_operator/EmptyCell comparison code of the '
              'regenerated runtime class and of classes emitted by the real Parser for the six comparison operators; operand '
              'pairs of one kind and (where cheap) the operator are symbolic. Exactness against Python comparison for numbers, '
              'order laws for texts, the blank clauses and date = date-time-at-midnight are separate solver-decided conditions.'),
        design_ref='DESIGN.md section 5 / C10',
        note=('floats are modelled as reals by CrossHair (order comparison involves no rounding); NaN/inf, non-ASCII text, cross-kind pairs '
              'other than with blank are outside the claim; dates: (year, month) concrete per condition, day symbolic, hour in {0,7,13}. '
              'One known finding (blank vs numeric-looking text) is partitioned out of the precondition.'),
        technique='symbolic execution of the real Python code (CrossHair/z3), per-condition solver verdict',
        engine='E1',
    ),
    'C17': dict(
        category='other',
        text=('Bounded symbolic execution (CrossHair + z3) of the real text helpers (_left/_right/_mid/_search/_value/'
              '_excel_value_to_string) of the regenerated runtime class and of classes emitted by the real Parser for LEFT/RIGHT/MID/&/'
              'CONCATENATE/SEARCH/VALUE; texts (ASCII, len<=4/5), counts/positions, the plain SEARCH needle and the searched text are '
              'symbolic; wildcard patterns are an enumerated concrete family (the runtime compiles them). Oracles: Python slices, '
              'casefolded find, an independent backtracking wildcard matcher.'),
        design_ref='DESIGN.md section 5 / C17',
        note=('ASCII texts only (str.lower/upper and re.findall run on validated models inside the engine); symbolic wildcard patterns, '
              "VALUE's date/time/percent ladder, text forms of floats/booleans/blank under & are outside the claim; two known findings "
              '(wildcard pattern literals inside SEARCH) are listed in known_findings.json.'),
        technique='symbolic execution of the real Python code (CrossHair/z3), per-condition solver verdict',
        engine='E1',
    ),
    'C15': dict(
        category='other',
        text=('Bounded symbolic execution (CrossHair + z3) of the real date helpers (_date, _datedif, _edate, _eomonth, _network_days, '
              '_year/_month/_day) of the regenerated runtime class and of classes emitted by the real Parser; the year (pair) is concrete '
              'per condition, months/days/offsets/interval lengths/holiday offsets symbolic; oracle = independent proleptic-Gregorian '
              'ordinal arithmetic. TODAY is decided concretely with a stubbed clock (C-level datetime.combine cannot run inside the engine).'),
        design_ref='DESIGN.md section 5 / C15',
        note=('each verdict reads "for that concrete year, all months/days/offsets in the box"; years outside the listed set, DATEDIF MD/YD, '
              'time-of-day components are outside the claim; TODAY clause: concrete grid with a clock stub, not a solver verdict.'),
        technique='symbolic execution of the real Python code (CrossHair/z3), per-condition solver verdict',
        engine='E1',
    ),
    'C09': dict(
        category='other',
        text=('Inductive step of the real Parser facade under CrossHair + z3: symbolic pre-state (path, entry, safety flag, all dirty flags, '
              'cached text) constrained only by the cache invariant, one call of each facade method with a symbolic argument, postcondition = '
              'invariant preserved and get/write return/write exactly F(current settings) or raise exactly when F raises. Because Parser() '
              'satisfies the invariant this covers call histories of any length. The translation chain is replaced by the pure stub F.'),
        design_ref='DESIGN.md section 5 / C09',
        note=('Excel/Context/CellTranslator and open() are stubs (part of the claim). The second sentence of the property (byte-identical text across '
              'processes, hash seeds, earlier translations, threads) is NOT decided by this technique; only one concrete same-process history '
              'differential on the real chain is run and labelled concrete.'),
        technique='symbolic execution of the real Python code (CrossHair/z3): inductive step over a symbolic pre-state',
        engine='E1',
    ),
    'C04': dict(
        category='other',
        text=('Bounded exhaustive exploration of override histories (two writes with any second target / value from an 8-value family incl. '
              'equal-valued values of different types and falsy values / both addressing styles / one or two batches / optional query in between; '
              'and one cell written three times), enumerated by z3 (DFS with blocking constraints) and executed natively on the real Executor '
              'over the class emitted by the real Parser for a three-sheet workbook; oracle = the workbook re-translated by the real Parser with '
              'constants at the overridden positions ("edit and recalculate"), evaluated with the last-write map. About 170 000 histories.'),
        design_ref='DESIGN.md section 5 / C04',
        note=('the code under test hashes every value, so the solver is the exhaustive enumerator of the stated finite space, not an abstraction; '
              "set-iteration orders other than the running process's are not explored; histories longer than 3 writes are outside the claim; one "
              'known finding (whole-column reference vs override below the used range) is partitioned out by region. E1 (CrossHair) was tried '
              'first: 0.3-1 s per path (measured).'),
        technique='solver-enumerated bounded exploration (z3 DFS) with native execution of the real code, reference = re-translated edited workbook',
        engine='E2',
    ),
    'C08': dict(
        category='other',
        text=('Bounded exhaustive exploration of the Executor query-schedule space (one override, two queries over all five query APIs and '
              'addressing styles; 129 600 schedules), enumerated by z3 (DFS with blocking constraints over the schedule variables) and executed '
              'natively on the real Executor over the class emitted by the real Parser; each schedule is compared with a fresh Executor, and '
              'overrides/sizes/grid shape are checked. The code under test hashes every value, so the solver acts as the exhaustive enumerator '
              'of the stated finite space rather than abstracting values.'),
        design_ref='DESIGN.md section 5 / C08',
        note=('one workbook (the C04 one); at most two queries after one override; concurrency and longer schedules are outside the claim. '
              'E1 (CrossHair) was tried first and abandoned for this property: 1 s per path (measured), see DESIGN.md.'),
        technique='solver-enumerated bounded exploration (z3 DFS) with native execution of the real code',
        engine='E2',
    ),
    'C20': dict(
        category='translation_validation',
        text=('Per helper, the normalised AST of AbstractExcelInPython.<helper> is compared with the same helper in the class text regenerated from '
              'Context.build_class() together with the identity of the module-level bindings both use: identical => same behaviour for every '
              'argument, with no bound. Helpers whose ASTs differ are decided by CrossHair/z3 differential conditions on symbolic arguments; a '
              'stateful differential (set_arguments / exec_function_in histories) compares a generated class with a subclass of the base that '
              'carries the same cell methods. The thorough tier runs every differential condition regardless of AST equality.'),
        design_ref='DESIGN.md section 5 / C20',
        note=('AST identity trusts CPython determinism; differential conditions are bounded (short lists/texts, small integer boxes); members without '
              'a differential harness (_today, the exception class) are reported inconclusive if their ASTs ever differ.'),
        technique='AST equivalence of the two runtime copies + symbolic differential execution (CrossHair/z3) where they differ',
        engine='E1',
    ),
    'C11': dict(
        category='other',
        text=('Bounded symbolic execution (CrossHair + z3) of the classes the real Parser emits for SUM/AVERAGE/MIN/MAX/COUNT/COUNTBLANK/AND/OR over '
              'area shapes (row, column, rectangle, whole column, two areas, scalar+area in either order, other sheet, area reaching below the used '
              'range, the same reference text on two sheets, all formulas also in one workbook); the contents of the cells involved are symbolic '
              'Union[int, bool, str, None]; oracle = independent fold; SUM(X,Y)=SUM(X)+SUM(Y) as a metamorphic condition.'),
        design_ref='DESIGN.md section 5 / C11',
        note=('4 symbolic cells; texts of length <= 1; AVERAGE is decided in two steps (the emitted code hands exactly the numeric cells to _average - '
              'spied - and _average on small integer lists) because symbolic division makes the solver crawl; float arithmetic in SUM is not covered '
              '(comparisons only for MIN/MAX); dates and error-valued cells inside aggregates are outside the claim.'),
        technique='symbolic execution of the real Python code (CrossHair/z3), per-condition solver verdict',
        engine='E1',
    ),
    'C13': dict(
        category='other',
        text=('Bounded symbolic execution (CrossHair + z3) of the classes the real Parser emits for IF (2/3 arguments), IFS and IFERROR formulas, '
              'nested (depth <= 2) and in operand/argument positions (+ * & % SUM ROUND, inside IFERROR); condition cells symbolic '
              'Union[int, bool, None], value cells symbolic ints or one of the seven Excel error texts (symbolic index); branches that must not be '
              'evaluated contain an expression that raises when evaluated. Oracle: lazy reference evaluation per formula.'),
        design_ref='DESIGN.md section 5 / C13',
        note=('27 formula shapes; deeper nests, array-valued branches and text conditions are outside the claim; one known finding (IFS is eager and '
              'scans untaken pairs for errors) is listed in known_findings.json.'),
        technique='symbolic execution of the real Python code (CrossHair/z3), per-condition solver verdict',
        engine='E1',
    ),
    'C12': dict(
        category='other',
        text=('Bounded symbolic execution (CrossHair + z3) of the classes the real Parser emits for SUMIF/SUMIFS/COUNTIFS/AVERAGEIFS; the criterion '
              'forms (number, cell, six operator-prefixed literals, six operator&cell forms, text, operator+text, four wildcard patterns) x four '
              'functions and ten structural shapes (two pairs, SUMIF target derivation, misaligned ranges) are enumerated and pushed through the real '
              'lexer/parser/LambdaTokenTranslator; range contents and the referenced criterion cell are symbolic; oracle = independent '
              'select-then-fold with a three-valued accept predicate (nothing is demanded where the statement is silent).'),
        design_ref='DESIGN.md section 5 / C12',
        note=('3-row ranges; numeric forms: three symbolic Union[int,str] cells; text/wildcard forms: one symbolic text cell (len<=3, realised by the '
              'engine); AVERAGEIFS division spied; date criteria, floats, >2 pairs outside the claim; three known findings (text cell under a numeric '
              'comparison raises; operator+text criteria) are partitioned out.'),
        technique='symbolic execution of the real Python code (CrossHair/z3), per-condition solver verdict',
        engine='E1',
    ),
    'C01': dict(
        category='translation_validation',
        text=('For every formula of an enumerated skeleton family (all chains of 1-2 binary operators from the 11, decorated per operand with unary '
              'signs, postfix %, parentheses, a literal; parenthesised sub-chains; a seeded sample of 3-operator chains in quick, all in thorough) '
              'the expression emitted by the real Lexer/AstBuilder/translators is compared with the tree of an independent Excel-precedence parser as z3 '
              'terms over uninterpreted operators: EUF-unsat of "emitted != reference" means equal values for every operand and every '
              'interpretation of the operators. EUF-different shapes go to a value tier (z3 over reals; models replayed on the real generated '
              'class). Blank-as-zero and override-vs-constant clauses: CrossHair on emitted classes. Numeric literals: z3 Float64 through the '
              'real LiteralToken constructor with symbolic digit groups (builtins shimmed in its module globals).'),
        design_ref='DESIGN.md section 5 / C01',
        note=('operands are cell references (ints in the value tier, -9..9); _normalize_float_number = identity at term level; text concatenation '
              'associativity built into the normalisation; four grammar-level known findings (unary sign, lower-precedence operator after a higher one, '
              '% after brackets, % operand not last) cover 69% of the family on the pinned tree and are partitioned out by region - shapes outside '
              'the regions must stay identical; literals: integer part < 2^16/2^20, <= 3/6 fraction digits.'),
        technique='term equivalence of emitted vs reference expression (z3 EUF + real arithmetic), IEEE-754 bit-precise check of literals (z3 FP), CrossHair for blank/override clauses',
        engine='E3+E2+E1',
    ),
    'C16': dict(
        category='other',
        text=('Bit-precise symbolic execution (own explorer, z3 Float64/RNE proxies for * / ceil floor comparisons) of the real _roundup/_rounddown '
              'bodies of the regenerated runtime: for every (function, sign, scale s, digit count n) the solver decides over all decimal mantissas '
              'M < 2000 (quick) / 10^5 that the result is the double nearest to the decimal-exact result, outside the recorded known-finding '
              'region (decimals already at precision but not exactly representable), where a weaker one-unit bound is decided instead (thorough). '
              '_round is decided structurally: its body must be exactly round(number, int(digits)).'),
        design_ref='DESIGN.md section 5 / C16',
        note=('NOT decided: the percent clause (x% to 15 significant digits: the .15g formatting is C code and cannot be encoded) and the semantics of '
              "Python's round() on ties (C, dtoa) - the latter is a recorded known finding. ceil/floor results are integral FP terms (exact below 2^53)."),
        technique='symbolic execution of the real Python code on IEEE-754 proxies, z3 floating-point theory (QF_FPBV) per path',
        engine='E2',
    ),
    'C05': dict(
        category='other',
        text=('Symbolic execution (own explorer E2, z3) of the real parser core on token sequences whose CLASSES are z3 integers over all lexical '
              'classes: every sequence of length <= 3 (quick) / 4 after "=", and every alternative of every function _TOKEN_SETS (read from the real '
              'tables) with one symbolic token replaced / inserted / deleted at a symbolic position (two appended in thorough). On every path: the '
              "library's parser exception, or a tree holding every input token once and in order. Whitespace placement and ,/; choice: z3-enumerated "
              'variants of six concrete formulas through the real Lexer and translators must give the canonical emitted code.'),
        design_ref='DESIGN.md section 5 / C05',
        note=('token values are not symbolic (the parser core never reads them); the lexer is C regex code and is exercised on concrete texts only '
              '(group 3: the solver merely enumerates the variants, stated); sequences longer than the bound that are not one edit away from a '
              'function shape are outside the claim.'),
        technique='symbolic execution of the real parser on symbolic token classes (proxy __class__, z3 branch decisions); solver-enumerated lexer variants',
        engine='E2',
    ),
    'C06': dict(
        category='other',
        text=('The real parser core on symbolic token classes (engine E2) with the assertion "only exceptions of the library hierarchy"; every '
              'accepted path of the single-token-edit exploration of all function shapes gives (z3 model) a representative class sequence which is '
              'spelled canonically and pushed through the real Parser on a workbook: library exception, or text that compiles, defines ExcelInPython '
              'with the workbook titles/sizes and a member per cell, and loads the same from the written file and as a class object.'),
        design_ref='DESIGN.md section 5 / C06',
        note=('NOT decided by this technique: termination on arbitrary workbooks, every constant type openpyxl can deliver, arbitrary sheet titles - only '
              'listed concrete probes (with a time limit) run for these and are labelled concrete. Translators see one canonical spelling per accepted class '
              'sequence. Three shape-level known findings are matched by formula pattern.'),
        technique='symbolic execution of the real parser on symbolic token classes + concrete translation of solver-chosen representatives',
        engine='E2',
    ),
    'C19': dict(
        category='other',
        text=('(1) The real Excel._get_suspicious_constructions on every text of length <= 5 (quick) / 6 over one representative of every character '
              'class its two regexes distinguish (a A _ 1 ( ) . blank newline), enumerated by z3 and executed natively, against a three-valued oracle '
              '(must list / must not list / unconstrained). (2) z3-enumerated placements: safety flag x sheet x column x row of a suspicious text and of '
              'a second suspicious or innocent text; each case is a real .xlsx written by openpyxl and translated by the real Parser: exception type, '
              'key = true title + true A1 address, fragments are parts of the text, nothing innocent listed, never raised with the check off.'),
        design_ref='DESIGN.md section 5 / C19',
        note=('the solver is the exhaustive enumerator of finite spaces here (E1 with a symbolic regex subject does not finish length 4 - measured); '
              'longer texts, non-ASCII identifiers, more than two planted cells are outside the claim.'),
        technique='solver-enumerated bounded exploration (z3 DFS) with native execution of the real code on real .xlsx files',
        engine='E2',
    ),
    'C18': dict(
        category='other',
        text=('Bounded exhaustive exploration of sparse workbook layouts (presence bits of a 3x3 block, a far cell G10, a fixed sparse second sheet with '
              'an optional array formula, an empty third sheet; 1 024 layouts for each of 11 rotations of a typed value family), enumerated by z3 '
              'and executed natively: every layout is a real .xlsx written by openpyxl and translated by the real Parser; on the loaded class every '
              'coordinate of a 5x5 box on every sheet is compared (value and exact type, or blank) with what plain openpyxl reads back from the '
              'same file, together with the titles in workbook order and the sizes.'),
        design_ref='DESIGN.md section 5 / C18',
        note=('the solver is the exhaustive enumerator of the stated finite layout space (nothing stays symbolic through file I/O); real openpyxl is '
              'exercised, no stub; value kinds outside the family (date without time, time, timedelta, empty text), more sheets or larger blocks are '
              'outside the claim.'),
        technique='solver-enumerated bounded exploration (z3 DFS) with native execution of the real code on real .xlsx files',
        engine='E2',
    ),
    'C07': dict(
        category='other',
        text=('Bounded exploration of payload texts (sequences of <= 2 (quick) / 3 symbols of a 24-symbol adversarial alphabet: quotes, backslash, newline, '
              '# { } %, brackets, wildcards, call-syntax attack strings) x 8 placement contexts (constant cell, plain literal, criterion literal, ">"& '
              'literal, SEARCH argument, DATEDIF unit, two-pair COUNTIFS, sheet title) x safety check on/off, enumerated by z3 and executed natively '
              'through the real Parser on real .xlsx files. Oracle: the generated module compiles and, with string constants blanked, has the same '
              'AST as the module for a benign twin (=> the payload reached string constants only); constant cells / plain literals evaluate to '
              'exactly the payload; a canary in builtins is never called.'),
        design_ref='DESIGN.md section 5 / C07',
        note=('the solver is the exhaustive enumerator of the stated finite space; payloads longer than the bound, bare double quotes inside formula '
              'literals (Excel doubles them) and illegal sheet titles are outside the claim; one known finding (wildcard characters in a plain '
              'literal are turned into their regex form) is matched by context + character.'),
        technique='solver-enumerated bounded exploration (z3 DFS) with native execution; AST skeleton comparison of generated modules',
        engine='E2',
    ),
    'C02': dict(
        category='other',
        text=('(a) Bounded exploration, enumerated by z3 and executed natively on real .xlsx files through the real Parser, of 124 reference spellings '
              '(relative / $-absolute, bare / unquoted / quoted sheet prefix, cell, row and column ranges, rectangles, whole columns, other sheets, missing '
              'sheets) x 4 formula sheets x 5 positions (operand, SUM, SUM twice, COUNTIFS range, INDEX with every (row, column)); the cells hold distinct '
              'powers of two, so SUM identifies the exact set of cells and INDEX their order; a missing sheet must be rejected. (b) reference text -> '
              'token -> handle_cell: z3-enumerated pieces (title spelling, $ flags, boundary columns A..ZZZ, boundary rows, trailing character) must '
              'come back as the intended indices; every one of the 18 278 column names is run concretely.'),
        design_ref='DESIGN.md section 5 / C02',
        note=('the solver enumerates finite case spaces here (E1 with symbolic reference text was measured: thousands of paths, one per character value, no '
              'verdict in 180 s); 4x4 blocks; titles containing quotes or exclamation marks, 3-D and lower-case references are outside the claim.'),
        technique='solver-enumerated bounded exploration (z3 DFS) with native execution of the real code on real .xlsx files',
        engine='E2',
    ),
    'C03': dict(
        category='other',
        text=('Bounded exhaustive exploration, enumerated by z3 and executed natively on real .xlsx files through the real Parser, of dependency graphs: '
              '3 formula cells on 2 sheets, every one of the 512 edge sets (self loops, cross-sheet edges) x 10 assignments of base formulas (5 rotations, 5 uniform; the same '
              'unqualified text on two sheets, rectangles sharing a start cell with different extents used repeatedly, a whole-column reference). Per '
              'workbook the whole translation and the entry-point translation from each formula cell are checked: cycle (anywhere / reachable from '
              "the entry) => the library's parser exception; else the slice is closed, contains everything the entry reaches and evaluates each of "
              'those cells to the value of an independent evaluator (= the whole-workbook value).'),
        design_ref='DESIGN.md section 5 / C03',
        note=('the solver enumerates the finite graph space (translation is concrete by nature); more than 3 formula cells, dependencies through criteria '
              'ranges / INDEX / COLUMN and deeper graphs are outside the claim.'),
        technique='solver-enumerated bounded exploration (z3 DFS) with native execution of the real code on real .xlsx files',
        engine='E2',
    ),
}

NOT_YET = {}   # filled below for every property without a check

# parts of a check that are NOT solver verdicts (enumeration or concrete probes on the real code); appended to the level note
LABELLED = {
    'C03': 'Concrete probe (labelled): rings and chains of 2..150 cells.',
    'C05': 'Groups 4 and 5 are concrete surveys through the real lexer/parser/translators (accepted arguments reach the emitted code; parser-level rejection = translation-level rejection), labelled as such in the evidence.',
    'C09': 'Concrete probes (labelled): same-process history differential, PYTHONHASHSEED sweep, four-thread probe.',
    'C14': 'Grid (labelled, enumeration): sorted key columns of 16-18 rows with duplicate runs.',
    'C16': 'Formula level (labelled grid): delegation of ROUND/ROUNDUP/ROUNDDOWN to the decided helpers, witness values, and the x% clause on a native grid (C formatting is executed, not encoded).',
    'C19': 'Concrete probe (labelled): workbooks with 1..130 suspicious cells.',
    'C20': 'Native grids (labelled, enumeration) back the differential for members whose symbolic differential does not close; the set of differing members is closed under callers.',
}


def main():
    props = [json.loads(l) for l in open(os.path.join(V, 'properties.jsonl'))]
    checks = []
    for p in props:
        pid = p['id']
        c = CHECKS.get(pid)
        if not c:
            continue
        checks.append(dict(
            property_id=pid,
            quick_cmd=f'./vcheck {pid} --tier quick',
            thorough_cmd=f'./vcheck {pid} --tier thorough',
            evidence_file=f'/verif/evidence/{pid}.json',
            replay_cmd_template=f'./vcheck {pid} --replay {{path}}',
            engine=c['engine'],
            level_claimed=dict(category=c['category'], text=c['text'], design_ref=c['design_ref']),
            level_note=c['note'] + (' ' + LABELLED[pid] if pid in LABELLED else ''),
            technique=c['technique'],
        ))
    na = []
    from_file = {}
    nap = os.path.join(V, 'tools', 'not_applicable.json')
    if os.path.exists(nap):
        from_file = json.load(open(nap))
    for p in props:
        if p['id'] not in CHECKS:
            na.append(dict(property_id=p['id'], reason=from_file.get(p['id'], 'check not built yet in this round (planned: see DESIGN.md section 6); nothing is claimed for it')))
    m = dict(
        version=1,
        setup_cmd='./setup.sh',
        hooks=dict(guard='E2PYCL_VERIF', enable='no source hooks are needed: every observation point is a return value; the checks import /repo through the editable install of /venv',
                   baseline_off_cmd='cd /repo && /venv/bin/python -m pytest -ra -q -p no:cacheprovider --timeout=900 --continue-on-collection-errors',
                   source_commits=[], add_only=True),
        engines=[
            dict(name='E1', path='vlib/e1.py', serves_properties=sorted(k for k, v in CHECKS.items() if 'E1' in v['engine']),
                 kind_free_text='CrossHair 0.0.110 symbolic execution of the real Python code with z3; one forked process per condition; vacuity twins; native replay'),
            dict(name='E2', path='vlib/e2.py', serves_properties=sorted(k for k, v in CHECKS.items() if 'E2' in v['engine']),
                 kind_free_text='own DFS path explorer: proxy objects through the real bytecode, z3 decides every branch (token classes, IEEE doubles, ints)'),
            dict(name='E3', path='vlib/e3.py', serves_properties=sorted(k for k, v in CHECKS.items() if 'E3' in v['engine']),
                 kind_free_text='emitted expression vs reference expression as z3 terms over uninterpreted operators (EUF)'),
        ],
        checks=checks,
        not_applicable=na,
        notes='See DESIGN.md. All checks: ./vcheck <ID> --tier quick|thorough. Known findings: known_findings.json. Seeded changes: seeded/.',
    )
    try:
        import jsonschema
        jsonschema.validate(m, json.load(open('/root/.vp/MANIFEST.schema.json')))
    except ImportError:
        pass
    json.dump(m, open(os.path.join(V, 'MANIFEST.json'), 'w'), indent=1)
    print('MANIFEST.json:', len(checks), 'checks,', len(na), 'not_applicable')

if __name__ == '__main__':
    main()
