#!/bin/bash
# usage: tools/seedrun.sh <dir with patch.diff> <PID> [tier]  -> applies the change to /repo, runs the check, reverts. prints CHECK_RC
D=$(cd "$1" && pwd); PID=$2; TIER=${3:-quick}
cd /repo
if ! git diff --quiet; then echo "repo dirty"; exit 9; fi
git apply --whitespace=nowarn "$D/patch.diff" 2>/dev/null || git apply -3 --whitespace=nowarn "$D/patch.diff" || { echo "APPLY FAILED"; git checkout -- .; exit 8; }
cd /verif
./vcheck $PID --tier $TIER > /tmp/seedrun_$PID.log 2>&1; RC=$?
cd /repo && git checkout -- . && git status --short | grep -v '^??' 
echo "CHECK_RC=$RC $(grep -c '^VIOLATION' /tmp/seedrun_$PID.log) violations; $(tail -1 /tmp/seedrun_$PID.log | cut -c1-200)"
grep '^VIOLATION' -A1 /tmp/seedrun_$PID.log | head -8
