#!/bin/bash
# usage: tools/seedrun.sh <dir with patch.diff> <PID> [tier]
# Runs the check of <PID> against a scratch worktree of /repo with the seeded change applied (PYTHONPATH puts the
# worktree before the editable install), with separate work/evidence/replay dirs, so it can run beside other work.
D=$(cd "$1" && pwd); PID=$2; TIER=${3:-quick}
WT=$(mktemp -d /tmp/seedrun.XXXXXX); rmdir "$WT"
git -C /repo worktree add -q --detach "$WT" HEAD || exit 9
( cd "$WT" && { git apply --whitespace=nowarn "$D/patch.diff" 2>/dev/null || git apply -3 --whitespace=nowarn "$D/patch.diff"; } ) || { echo "APPLY FAILED $D"; git -C /repo worktree remove --force "$WT"; exit 8; }
OUT=$WT.out; mkdir -p $OUT
cd /verif
LOG=/tmp/seedlog_${PID}_$(basename $D)_$$.log
PYTHONPATH=$WT VERIF_REPO=$WT VERIF_WORK=$OUT/work VERIF_EVID=$OUT/evid VERIF_REPLAY=$OUT/replay ./vcheck $PID --tier $TIER > $LOG 2>&1; RC=$?
git -C /repo worktree remove --force "$WT"; rm -rf $OUT
echo "SEED $D PID=$PID CHECK_RC=$RC $(grep -c '^VIOLATION' $LOG) violations; $(grep '^\[' $LOG | tail -1 | cut -c1-160)"
grep '^VIOLATION' -A1 $LOG | grep harness | head -4
