#!/usr/bin/env python3
"""Writes known_shapes/C01.txt.gz: the formulas of the full C01 grouping family (chains of 1-3 operators, every decoration) whose emitted
grouping differs from Excel's on the current tree *inside the region of a recorded finding* (whether or not the solver's particular model replays).  Run it only on a tree whose remaining failures are exactly the recorded findings (the
pinned tree plus the fix: commits); the check never writes this file.  A formula that lies in a region but is not listed is reported as a violation."""
import gzip, os, sys
V = os.path.dirname(os.path.dirname(os.path.abspath(__file__)))
sys.path.insert(0, V)
from harness import c01
from vlib import NCPU, e2, findings

fam = c01.skeletons(1) + c01.skeletons(2) + c01.skeletons(3)
kfs = findings.for_harness('C01', 'grouping')
c01.SNAP = None
chunks = [fam[i::NCPU * 2] for i in range(NCPU * 2)]
res = e2.run_jobs([(f'chunk{i}', c01._group1_chunk, (ch, kfs, False)) for i, ch in enumerate(chunks) if ch], NCPU, deadline=3000)
known, viol = set(), 0
for r in res.values():
    for fs in r['hits'].values():
        known.update(fs)
    viol += r['cnt']['violated']
if viol:
    sys.exit(f'{viol} violations outside the recorded regions: not a tree to take a snapshot from')
os.makedirs(os.path.join(V, 'known_shapes'), exist_ok=True)
with gzip.open(os.path.join(V, 'known_shapes', 'C01.txt.gz'), 'wt') as f:
    f.write('\n'.join(sorted(known)) + '\n')
print(len(fam), 'formulas in the family,', len(known), 'recorded as failing inside the regions')
