#!/usr/bin/env python3
"""usage: seedkeep.py <PID-of-agent> <k> <detected_by or '-'> <what I ran / note> [source root] [number to keep it under]
copies <root>/<PID>/<k>/{patch.diff,demo.py,notes.md} (root default /tmp/mut/results) to /verif/seeded/<PID>-<number>/ and writes meta.json"""
import json, os, shutil, subprocess, sys
pid, k, det, note = sys.argv[1], sys.argv[2], sys.argv[3], sys.argv[4]
root = sys.argv[5] if len(sys.argv) > 5 else '/tmp/mut/results'
num = sys.argv[6] if len(sys.argv) > 6 else k
src = f'{root}/{pid}/{k}'
dst = f'/verif/seeded/{pid}-{num}'
os.makedirs(dst, exist_ok=True)
for f in ('patch.diff', 'demo.py', 'notes.md'):
    shutil.copy(os.path.join(src, f), os.path.join(dst, f))
notes = open(os.path.join(src, 'notes.md')).read()
head = subprocess.run(['git', '-C', '/repo', 'rev-parse', '--short', 'HEAD'], capture_output=True, text=True).stdout.strip()
meta = dict(
    id=f'{pid}-{num}', breaks_property=pid, written_for_property=pid,
    needs_to_manifest=notes.strip().split('\n')[0:12],
    detected_by=[] if det == '-' else det.split(','),
    verified=dict(repo_head_when_verified=head,
                  procedure='tools/seedverify.sh (scratch worktree of /repo HEAD: demo.py passes on the unchanged tree; patch applies; the 44 pinned tests pass with it; demo.py fails with it) and tools/seedrun.sh <dir> <CHECK> (check run against a scratch worktree with the patch applied)',
                  note=note),
)
json.dump(meta, open(os.path.join(dst, 'meta.json'), 'w'), indent=1)
print('kept', dst)
