#!/bin/bash
# usage: tools/seedverify.sh <dir with patch.diff demo.py>   -> verifies the seeded change independently in a scratch worktree
# prints: DEMO_BASE=<rc> APPLY=<rc> TESTS=<summary> DEMO_MUT=<rc>
D=$(cd "$1" && pwd)
WT=$(mktemp -d /tmp/seedwt.XXXXXX)
rmdir "$WT"
git -C /repo worktree add -q --detach "$WT" HEAD || exit 9
cd "$WT"
PYTHONPATH=$WT timeout 600 /venv/bin/python -W ignore "$D/demo.py" >/tmp/seed_demo_base.log 2>&1; B=$?
git apply --whitespace=nowarn "$D/patch.diff" 2>/tmp/seed_apply.log || git apply -3 --whitespace=nowarn "$D/patch.diff" 2>>/tmp/seed_apply.log; A=$?
T=$(PYTHONPATH=$WT timeout 900 /venv/bin/python -m pytest -q -p no:cacheprovider test 2>&1 | tail -1)
PYTHONPATH=$WT timeout 600 /venv/bin/python -W ignore "$D/demo.py" >/tmp/seed_demo_mut.log 2>&1; M=$?
cd /
git -C /repo worktree remove --force "$WT"
echo "DEMO_BASE=$B APPLY=$A TESTS=[$T] DEMO_MUT=$M"
