"""C10 — comparisons are exact and lawful.

E1 on the real `_compare` / `_by_operator` / `EmptyCell` of the regenerated runtime class and on classes emitted by the
real Parser for `=A1<op>B1` (operands as overrides, constants and literals)."""
from vlib.e1 import Suite

LEVEL = 'other'
EXPLANATION = ('Bounded symbolic execution (CrossHair/z3) of the real comparison helper (_compare, _by_operator, EmptyCell '
               'rich comparisons) of the regenerated runtime class, and of classes emitted by the real Parser for the six '
               'comparison operators; operand pairs of one kind (int, float, short text, blank, date/date-time with symbolic '
               'day/hour) and the operator are symbolic; the postcondition is exactness against Python\'s own comparison of the '
               'same values for numbers and the order laws / blank clauses of the statement for the other kinds.')
RULE = ('one condition per (operand kind pair, law or exactness clause, level helper/formula); non-trivial = confirmed over '
        'all paths with a refuted vacuity twin, or a replay-confirmed counterexample')

PRE = r'''
import datetime
from typing import List, Tuple, Optional, Union
from vlib import build
from crosshair import realize
K0 = build.load_class(build.runtime_source(), '_rt')
RT = K0()
E = K0.EmptyCell
OPS = ['<', '<=', '>', '>=', '==', '!=']

def pyop(i, a, b):
    if i == 0: return a < b
    if i == 1: return a <= b
    if i == 2: return a > b
    if i == 3: return a >= b
    if i == 4: return a == b
    return a != b

def cmp6(a, b):
    return [RT._compare(o, a, b) for o in OPS]

def lawful(a, b):
    lt, le, gt, ge, eq, ne = cmp6(a, b)
    rlt, rle, rgt, rge, req, rne = cmp6(b, a)
    one = (1 if lt else 0) + (1 if eq else 0) + (1 if gt else 0) == 1
    return (one and ne == (not eq) and le == (not gt) and ge == (not lt)
            and lt == rgt and gt == rlt and eq == req)

# formula level
XL = {'<': '<', '<=': '<=', '>': '>', '>=': '>=', '==': '=', '!=': '<>'}
FORMS = {}
_cells = {}
for _i, _o in enumerate(OPS):
    _cells[f'C{_i + 1}'] = f'=A1{XL[_o]}B1'          # both operands cells
    _cells[f'D{_i + 1}'] = f'=A1{XL[_o]}2.5'          # literal on the right
    _cells[f'E{_i + 1}'] = f'=A2{XL[_o]}B1'          # A2 is blank in the workbook
    _cells[f'F{_i + 1}'] = f'=A1{XL[_o]}""'           # empty text literal
    _cells[f'G{_i + 1}'] = f'=A3{XL[_o]}B3'          # both operands hold *text* in the workbook (overridden with numbers)
    _cells[f'H{_i + 1}'] = f'=A3{XL[_o]}"kiwi"'       # text cell against a text literal
    _cells[f'I{_i + 1}'] = f'=A3{XL[_o]}"10"'         # text cell against a numeric-looking text literal
    _cells[f'J{_i + 1}'] = f'="10"{XL[_o]}A3'         # the same, mirrored
TRANSLATE_ERRORS = []
try:
    KF = build.load_class(build.translate_formulas(_cells, {'A1': 1, 'B1': 2, 'A3': 'pear', 'B3': 'apple'}), '_kf')
except Exception as _e:
    KF = None
    TRANSLATE_ERRORS.append(('=A1<op>B1 family', f'{type(_e).__name__}: {_e}'))

def ev(cell, **ov):
    args = [{'uid': build.uid(0, a), 'value': v} for a, v in ov.items()]
    return KF(args).exec_function_in(build.uid(0, cell))

def numlike(t):
    return t != '' and all(c in '-.0123456789' for c in t)

def fin(x):
    return x == x and -1e6 < x < 1e6
'''


def run(report, tier, seed):
    T = 60 if tier == 'quick' else 240
    s = Suite('C10', 'cmp', PRE, timeout=T)
    enc = ('ExcelInPython._compare', 'ExcelInPython._by_operator', 'ExcelInPython.EmptyCell.__eq__/__lt__/__le__/__gt__/__ge__')
    s.add('num_int_exact', 'a: int, b: int, op: int', '0 <= op < 6', 'return RT._compare(OPS[op], a, b) == pyop(op, a, b)', encodes=enc)
    s.add('num_float_exact', 'a: float, b: float, op: int', '0 <= op < 6 and fin(a) and fin(b)',
          'return RT._compare(OPS[op], a, b) == pyop(op, a, b)', encodes=enc)
    s.add('num_int_float_exact', 'a: int, b: float, op: int', '0 <= op < 6 and fin(b) and -10**6 < a < 10**6',
          'return RT._compare(OPS[op], a, b) == pyop(op, a, b) and RT._compare(OPS[op], b, a) == pyop(op, b, a)', encodes=enc)
    # texts: small mixed alphabet including characters that make a text numeric-looking.  One harness per law
    alpha = "aA1-"
    n = 2 if tier == 'quick' else 3
    tpre = f"len(a) <= {n} and len(b) <= {n} and all(c in '{alpha}' for c in a + b)"
    s.add('text_trichotomy', 'a: str, b: str', tpre, """
        lt, eq, gt = RT._compare('<', a, b), RT._compare('==', a, b), RT._compare('>', a, b)
        return (1 if lt else 0) + (1 if eq else 0) + (1 if gt else 0) == 1
    """, encodes=enc, timeout=T * 2)
    for nm, o1, o2 in (('ne_not_eq', '!=', '=='), ('le_not_gt', '<=', '>'), ('ge_not_lt', '>=', '<')):
        s.add(f'text_{nm}', 'a: str, b: str', tpre, f"""
            return RT._compare('{o1}', a, b) == (not RT._compare('{o2}', a, b))
        """, encodes=enc, timeout=T * 2)
    s.add('text_lt_iff_gt_swapped', 'a: str, b: str', tpre, """
        return RT._compare('<', a, b) == RT._compare('>', b, a)
    """, encodes=enc, timeout=T * 2)
    s.add('text_eq_symmetric', 'a: str, b: str', tpre, """
        return RT._compare('==', a, b) == RT._compare('==', b, a)
    """, encodes=enc, timeout=T * 2)
    s.add('text_nonnumeric_exact', 'a: str, b: str, op: int',
          f"0 <= op < 6 and len(a) <= {n} and len(b) <= {n} and all(c in 'abAB' for c in a + b)",
          'return RT._compare(OPS[op], a, b) == pyop(op, a, b)', encodes=enc, timeout=T * 2)
    # blank clauses
    s.add('blank_vs_int', 'x: int, op: int', '0 <= op < 6', '''
        got = RT._compare(OPS[op], E(), x)
        return got == pyop(op, 0, x) and RT._compare(OPS[op], x, E()) == pyop(op, x, 0)
    ''', encodes=enc)
    s.add('blank_vs_float', 'x: float, op: int', '0 <= op < 6 and fin(x)', '''
        got = RT._compare(OPS[op], E(), x)
        return got == pyop(op, 0.0, x) and RT._compare(OPS[op], x, E()) == pyop(op, x, 0.0)
    ''', encodes=enc)
    s.add('blank_vs_text', 't: str', f"len(t) <= {n} and all(c in '{alpha}.0' for c in t)", '''
        lt, le, gt, ge, eq, ne = cmp6(E(), t)
        rlt, rle, rgt, rge, req, rne = cmp6(realize(t), E())   # reversed direction on the realised text (engine str model returns False for str == non-str)
        if t == '':
            return eq and not ne and not lt and not gt and le and ge and req and not rne and not rlt and not rgt
        return lt and le and not gt and not ge and not eq and ne and rgt and rge and not rlt and not rle and not req and rne
    ''', encodes=enc)
    s.add('blank_vs_false_and_blank', 'x: int', 'True', '''
        return (cmp6(E(), False) == [False, True, False, True, True, False]
                and cmp6(E(), E()) == [False, True, False, True, True, False]
                and cmp6(False, E()) == [False, True, False, True, True, False] and lawful(E(), E()) and lawful(E(), False))
    ''', encodes=enc, twin=True)
    # dates: (year, month) concrete per harness, day / hour symbolic
    months = [(2024, 2, 29), (2023, 12, 31)] if tier == 'quick' else [(2024, 2, 29), (2023, 12, 31), (2000, 3, 31), (1900, 1, 31)]
    PYO = ['<', '<=', '>', '>=', '==', '!=']
    for (y, m, dim) in months:
        for op in range(6):
            o = PYO[op]
            for h in (0, 13):
                s.add(f'date_vs_datetime_{y}_{m}_h{h}_op{op}', 'd1: int, d2: int', f'1 <= d1 <= {dim} and 1 <= d2 <= {dim}', f"""
                    a = datetime.date({y}, {m}, d1)
                    b = datetime.datetime({y}, {m}, d2, {h})
                    return RT._compare('{o}', a, b) == ((d1, 0) {o} (d2, {h}))
                """, encodes=enc, timeout=T * 2, twin=(op == 0))
                s.add(f'datetime_vs_date_{y}_{m}_h{h}_op{op}', 'd1: int, d2: int', f'1 <= d1 <= {dim} and 1 <= d2 <= {dim}', f"""
                    a = datetime.date({y}, {m}, d1)
                    b = datetime.datetime({y}, {m}, d2, {h})
                    return RT._compare('{o}', b, a) == ((d2, {h}) {o} (d1, 0))
                """, encodes=enc, timeout=T * 2, twin=(op == 0))
            s.add(f'blank_vs_date_{y}_{m}_op{op}', 'd: int', f'1 <= d <= {dim}', f"""
                a = datetime.datetime({y}, {m}, d, 7)
                b = datetime.date({y}, {m}, d)
                return (RT._compare('{o}', E(), a) == {[True, True, False, False, False, True][op]}
                        and RT._compare('{o}', a, E()) == {[False, False, True, True, False, True][op]}
                        and RT._compare('{o}', E(), b) == {[True, True, False, False, False, True][op]}
                        and RT._compare('{o}', b, E()) == {[False, False, True, True, False, True][op]})
            """, encodes=enc, timeout=T * 2, twin=(op == 0))
    # formula level
    fenc = ('ExpressionTokenTranslator.translate (comparison branch)', 'OperatorSubTokenTranslator.translate', 'emitted cell methods')
    s.add('f_cells_int', 'a: int, b: int, op: int', '0 <= op < 6', '''
        return ev('C' + str(op + 1), A1=a, B1=b) == pyop(op, a, b)
    ''', encodes=fenc, requires='KF is not None')
    s.add('f_cells_float', 'a: float, b: float, op: int', '0 <= op < 6 and fin(a) and fin(b)', '''
        return ev('C' + str(op + 1), A1=a, B1=b) == pyop(op, a, b)
    ''', encodes=fenc, requires='KF is not None')
    s.add('f_textcells_overridden_int', 'a: int, b: int, op: int', '0 <= op < 6', '''
        return ev('G' + str(op + 1), A3=a, B3=b) == pyop(op, a, b)
    ''', encodes=fenc, requires='KF is not None')
    s.add('f_textcells_overridden_float', 'a: float, b: float, op: int', '0 <= op < 6 and fin(a) and fin(b)', '''
        return ev('G' + str(op + 1), A3=a, B3=b) == pyop(op, a, b)
    ''', encodes=fenc, requires='KF is not None')
    s.add('f_textcell_vs_textliteral_overridden', 'a: int, op: int', '0 <= op < 6', '''
        return ev('G' + str(op + 1)) == pyop(op, 'pear', 'apple') and ev('H' + str(op + 1)) == pyop(op, 'pear', 'kiwi')
    ''', encodes=fenc, requires='KF is not None')
    # cells that hold numbers in the workbook, supplied with other kinds at run time: the emitted comparison must not depend on what the workbook stored
    s.add('f_numcells_overridden_date_vs_midnight', 'd: int, op: int', '0 <= op < 6 and 27 <= d <= 29', '''
        op, d = realize(op), realize(d)
        a, b = datetime.date(2024, 2, d), datetime.datetime(2024, 2, d)
        c = 'C' + str(op + 1)
        return ev(c, A1=a, B1=b) == pyop(op, 0, 0) and ev(c, A1=b, B1=a) == pyop(op, 0, 0) and ev(c, A1=a, B1=a) == pyop(op, 0, 0)
    ''', encodes=fenc, requires='KF is not None')
    s.add('f_numcells_overridden_dates_ordered', 'd: int, e: int, op: int', '0 <= op < 6 and 1 <= d <= 3 and 1 <= e <= 3', '''
        op, d, e = realize(op), realize(d), realize(e)
        return ev('C' + str(op + 1), A1=datetime.date(2024, 3, d), B1=datetime.datetime(2024, 3, e, 0, 0)) == pyop(op, d, e)
    ''', encodes=fenc, requires='KF is not None')
    s.add('f_numcells_overridden_text', 'a: str, b: str, op: int', "0 <= op < 6 and len(a) <= 1 and len(b) <= 1 and all(c in 'aAb' for c in a + b)", '''
        op = realize(op)
        return ev('C' + str(op + 1), A1=a, B1=b) == pyop(op, a, b)
    ''', encodes=fenc, requires='KF is not None', timeout=T * 2)
    s.add('f_numcell_vs_literal_overridden_text', 'a: str, op: int', "0 <= op < 6 and 1 <= len(a) <= 2 and all(c in 'abAB' for c in a)", '''
        lt, le, gt, ge, eq, ne = [ev('D' + str(k + 1), A1=a) for k in range(6)]
        return (1 if lt else 0) + (1 if eq else 0) + (1 if gt else 0) == 1 and ne == (not eq) and le == (not gt) and ge == (not lt)
    ''', encodes=fenc, requires='KF is not None', timeout=T * 2)
    s.add('f_numeric_looking_text_vs_literal_laws', 'a: str', "1 <= len(a) <= 3 and all(c in '10.a' for c in a)", '''
        a = realize(a)
        lt, le, gt, ge, eq, ne = [ev('I' + str(k + 1), A3=a) for k in range(6)]
        rlt, rle, rgt, rge, req, rne = [ev('J' + str(k + 1), A3=a) for k in range(6)]
        one = (1 if lt else 0) + (1 if eq else 0) + (1 if gt else 0) == 1
        return (one and ne == (not eq) and le == (not gt) and ge == (not lt) and lt == rgt and gt == rlt and eq == req and ne == rne
                and [lt, le, gt, ge, eq, ne] == list(cmp6(a, '10')))
    ''', encodes=fenc, requires='KF is not None', timeout=T * 3)
    s.add('f_literal_right', 'a: float, op: int', '0 <= op < 6 and fin(a)', '''
        return ev('D' + str(op + 1), A1=a) == pyop(op, a, 2.5)
    ''', encodes=fenc, requires='KF is not None')
    s.add('f_blank_cell_left', 'b: float, op: int', '0 <= op < 6 and fin(b)', '''
        return ev('E' + str(op + 1), B1=b) == pyop(op, 0.0, b)
    ''', encodes=fenc, requires='KF is not None')
    s.add('f_blank_vs_empty_text_literal', 'op: int', '0 <= op < 6', '''
        return ev('F' + str(op + 1), A1=E()) == [False, True, False, True, True, False][op]
    ''', encodes=fenc, requires='KF is not None')
    report.bound(f'ints unbounded; floats finite |x|<1e6 (real-arithmetic model: order comparison involves no rounding); texts len<={n} over "{alpha}"; '
                 'dates: (year, month) concrete per harness, day and hour symbolic')
    report.assume('outside the claim: NaN/inf, cross-kind pairs other than those with blank, non-ASCII text, ints beyond 2**53 against floats',
                  'CrossHair models float as real numbers; the IEEE re-check of the number clause is part of the E2 tier',
                  'bare `except:` of the loaded runtime copy narrowed to `except Exception`')
    s.run(report)
    s.report_translate_errors(report)


def replay(rp):
    print(rp)
    return 0
