"""C03 — entry-point translation is a closed, faithful slice; cycles are rejected.

E2: z3 enumerates dependency graphs over three formula cells on two sheets (all 512 edge sets incl. self loops and cross-sheet edges) x a
rotation of the cells' base formulas (plain unqualified reference - the same text on both sheets -, rectangles sharing their start cell with
different extents and used repeatedly, a whole-column reference).  Every workbook is a real .xlsx through the real Parser: whole-workbook
translation and entry-point translation from each formula cell.  Oracle: independent reachability / cycle detection and evaluation."""
import os
import re
import shutil
import tempfile

import z3

from vlib import NCPU, WORK, build, e2

LEVEL = 'other'
EXPLANATION = ('Bounded exhaustive exploration, enumerated by z3 and executed natively on real .xlsx files through the real Parser, of dependency graphs '
               '(3 formula cells on 2 sheets, all 512 edge sets with self loops and cross-sheet edges) x 15 assignments of base formulas (5 rotations, 5 uniform: identical text on both sheets, 5 with every edge spelled as a one-cell area inside SUM) (same unqualified '
               'text on two sheets, rectangles with a shared start cell and different extents used repeatedly, whole-column reference). For each '
               'workbook: the whole translation and the entry-point translation from every formula cell. A cycle (reachable from the entry / anywhere) must '
               'give the library\'s parser exception; otherwise the slice must be closed (every referenced member defined), contain every cell the entry '
               'reaches, and evaluate every one of them to the value of an independent evaluator (= the whole-workbook value).')
RULE = ('one job per rotation; a case = one graph; non-trivial = job closed over all 512 graphs, or a replayed counterexample')

JAN = {(0, 0): 2, (1, 0): 3, (2, 0): 5, (0, 1): 7, (1, 1): 11, (2, 1): 13, (0, 2): 17, (1, 2): 19, (2, 2): 23}
FEB = {(0, 0): 29, (1, 0): 31, (2, 0): 37, (0, 1): 41, (1, 1): 43, (2, 1): 47, (0, 2): 53, (1, 2): 59, (2, 2): 61}
NODES = [(0, 'E1'), (0, 'E2'), (1, 'E1')]             # (sheet index, address): Jan!E1, Jan!E2, Feb!E1
TITLES = ['Jan', 'Feb']
MENU = ['A1+1', 'SUM(A1:B2)', 'SUM(A1:C3)', 'SUM(A:A)', 'SUM(A1:B2)+SUM(A1:C3)+SUM(A1:B2)']


def base_value(s, m):
    d = JAN if s == 0 else FEB
    a1, blk22, blk33, cola = d[(0, 0)], sum(d[(c, r)] for c in range(2) for r in range(2)), sum(d.values()), sum(d[(0, r)] for r in range(3))
    return [a1 + 1, blk22, blk33, cola, blk22 + blk33 + blk22][m]


def base_refs(s, m):
    """constant cells a base formula reads (uids)"""
    rects = [[(0, 0)], [(c, r) for c in range(2) for r in range(2)], [(c, r) for c in range(3) for r in range(3)], [(0, r) for r in range(3)],
             [(c, r) for c in range(3) for r in range(3)]][m]
    return {f'_{s}_{c}_{r}' for (c, r) in rects}


def node_ref(i, from_sheet):
    s, a = NODES[i]
    return a if s == from_sheet else f'{TITLES[s]}!{a}'


def node_uid(i):
    s, a = NODES[i]
    return build.uid(s, a)


def _job(rot, timeout, uniform=False, range_edges=False):
    from excel2pycl import Cell, Parser
    from excel2pycl.src.exceptions import E2PyclParserException
    from openpyxl.utils.cell import coordinate_from_string, column_index_from_string
    d = tempfile.mkdtemp(prefix='c03_', dir=build.scratch_dir(os.path.join(os.environ.get('VERIF_PID', 'misc'), 'c03')))

    def translate(p, entry=None):
        ps = Parser().disable_safety_check().set_excel_file_path(p)
        if entry is not None:
            s, a = NODES[entry]
            col, row = coordinate_from_string(a)
            ps.set_entrypoint_cell(Cell(s, column_index_from_string(col) - 1, row - 1))
        try:
            return ('src', ps.get_translation())
        except E2PyclParserException as e:
            return ('parser_exception', str(e)[:80])
        except RecursionError:
            return ('foreign', 'RecursionError')
        except Exception as e:
            return ('foreign', f'{type(e).__name__}: {e}')

    def case(edges):
        adj = [[edges[i * 3 + j] for j in range(3)] for i in range(3)]
        menu = [rot] * 3 if uniform else [(rot + i) % len(MENU) for i in range(3)]       # uniform: the same formula text on both sheets
        sheets = [dict(JAN), dict(FEB)]
        for i, (s, a) in enumerate(NODES):
            # an edge is a plain reference, or (range_edges) a one-cell area inside SUM: the dependency then runs through the area translator
            f = '=' + MENU[menu[i]] + ''.join(('+SUM(' + node_ref(j, s) + ':' + NODES[j][1] + ')' if range_edges else '+' + node_ref(j, s)) for j in range(3) if adj[i][j])
            sheets[s][build.a1({a: 0}).popitem()[0]] = f
        p = build.write_xlsx(os.path.join(d, 'w.xlsx'), [(TITLES[k], sheets[k]) for k in range(2)])
        # oracle: reachability, cycles, values
        def reach(i):
            seen, stack = set(), [i]
            while stack:
                x = stack.pop()
                for j in range(3):
                    if adj[x][j] and j not in seen:
                        seen.add(j)
                        stack.append(j)
            return seen
        R = [reach(i) for i in range(3)]
        on_cycle = [i in R[i] for i in range(3)]

        def cyclic_from(i):
            return on_cycle[i] or any(on_cycle[j] for j in R[i])
        val = {}

        def value(i):
            if i not in val:
                val[i] = base_value(NODES[i][0], menu[i]) + sum(value(j) for j in range(3) if adj[i][j])
            return val[i]
        # whole workbook
        whole = translate(p)
        if any(on_cycle):
            if whole[0] != 'parser_exception':
                return f'cyclic workbook (edges {adj}): whole translation gives {whole[0]} {whole[1][:60] if whole[0] != "src" else ""} instead of the parser exception'
        else:
            if whole[0] != 'src':
                return f'acyclic workbook (edges {adj}): whole translation fails: {whole}'
            ns = {}
            exec(compile(whole[1], 'gen_c03w.py', 'exec'), ns)
            inst = ns['ExcelInPython']()
            for i in range(3):
                got = inst.exec_function_in(node_uid(i))
                if got != value(i):
                    return f'whole translation (edges {adj}, menu {menu}): {TITLES[NODES[i][0]]}!{NODES[i][1]} = {got}, expected {value(i)}'
        # entry-point slices
        for e in range(3):
            out = translate(p, e)
            if cyclic_from(e):
                if out[0] != 'parser_exception':
                    return f'entry {TITLES[NODES[e][0]]}!{NODES[e][1]} reaches a cycle (edges {adj}): got {out[0]} instead of the parser exception'
                continue
            if out[0] != 'src':
                return f'entry {TITLES[NODES[e][0]]}!{NODES[e][1]} (edges {adj}) reaches no cycle but translation fails: {out}'
            src = out[1]
            try:
                ns = {}
                exec(compile(src, 'gen_c03e.py', 'exec'), ns)
            except Exception as ex_:
                return f'slice does not load: {type(ex_).__name__}: {ex_}'
            K = ns['ExcelInPython']
            defined = {k for k, v in vars(K).items() if callable(v) and re.fullmatch(r'_\d+_\d+_\d+(_\d+)?', k)}
            used = set(re.findall(r"_cell_preprocessor\('(_[0-9_]+)'\)", src.split('def exec_function_in')[1]))
            if not used <= defined:
                return f'slice for entry {e} (edges {adj}) is not closed: referenced but undefined {sorted(used - defined)[:4]}'
            need = {node_uid(e)} | {node_uid(j) for j in R[e]}
            for j in {e} | R[e]:
                need |= base_refs(NODES[j][0], menu[j])
            if not need <= defined:
                return f'slice for entry {e} (edges {adj}, menu {menu}) lacks cells the entry depends on: {sorted(need - defined)[:4]}'
            inst = K()
            for j in {e} | R[e]:
                got = inst.exec_function_in(node_uid(j))
                if got != value(j):
                    return f'slice for entry {e} (edges {adj}, menu {menu}): {TITLES[NODES[j][0]]}!{NODES[j][1]} = {got}, whole-workbook value {value(j)}'
        return None

    def run(ex):
        bs = [z3.Int(f'e{i}') for i in range(9)]
        for b in bs:
            ex.assume(z3.And(b >= 0, b <= 1))
        vals = [ex.concretize(b) for b in bs]
        try:
            out = case(vals)
        except Exception as e:
            out = f'harness exception {type(e).__name__}: {e}'
        return None if out is None else dict(edges=vals, rot=rot, why=out)
    r = e2.explore(run, timeout=timeout, max_failures=3)
    shutil.rmtree(d, ignore_errors=True)
    return r


def long_paths(report):
    """concrete (labelled): dependency rings and chains longer than anything the enumerated graphs hold - a ring of n cells must be rejected
    with the library's parser exception for every n (from the whole file and from an entry point on it / leading into it), an acyclic chain
    of the same length must translate and evaluate"""
    import time
    from excel2pycl import Cell, Parser
    from excel2pycl.src.exceptions import E2PyclParserException
    from openpyxl.utils import get_column_letter
    t0 = time.time()
    d = tempfile.mkdtemp(prefix='c03l_', dir=build.scratch_dir(os.path.join(os.environ.get('VERIF_PID', 'misc'), 'c03')))
    bad = None
    n_cases = 0

    def addr(i):
        return f'{get_column_letter(i % 20 + 1)}{i // 20 + 1}'
    for n in (2, 5, 40, 65, 100, 150):
        for kind in ('ring', 'tail_into_ring', 'chain'):
            cells = {}
            for i in range(n):
                nxt = (i + 1) % n
                if kind == 'chain' and i == n - 1:
                    cells[addr(i)] = 7
                else:
                    cells[addr(i)] = f'={addr(nxt)}+1'
            if kind == 'tail_into_ring':
                cells['Z30'] = f'={addr(0)}+1'
            p = build.write_xlsx(os.path.join(d, 'w.xlsx'), [('S', build.a1(cells))])
            entries = [None, Cell(0, 0, 0)] + ([Cell(0, 25, 29)] if kind == 'tail_into_ring' else [])
            for entry in entries:
                ps = Parser().disable_safety_check().set_excel_file_path(p)
                if entry is not None:
                    ps.set_entrypoint_cell(entry)
                n_cases += 1
                try:
                    src = ps.get_translation()
                    out = ('src', src)
                except E2PyclParserException:
                    out = ('parser_exception',)
                except RecursionError:
                    out = ('foreign', 'RecursionError')
                except Exception as e:
                    out = ('foreign', f'{type(e).__name__}: {e}')
                where = f'{kind} of {n} cells, ' + ('whole file' if entry is None else f'entry {entry}')
                if kind == 'chain':
                    if out[0] == 'foreign' and 'RecursionError' in out[1] and n > 60:
                        continue        # interpreter stack on a long acyclic chain: a resource limit, not a statement about cycles (not claimed)
                    if out[0] != 'src':
                        bad = bad or f'{where}: an acyclic chain is not translated: {out}'
                        continue
                    ns = {}
                    exec(compile(out[1], 'gen_c03l.py', 'exec'), ns)
                    got = ns['ExcelInPython']().exec_function_in('_0_0_0')
                    if got != 7 + n - 1:
                        bad = bad or f'{where}: A1 evaluates to {got}, expected {7 + n - 1}'
                elif out[0] != 'parser_exception':
                    bad = bad or f'{where}: a cyclic dependency gives {out[0]} {out[1][:60] if len(out) > 1 and out[0] != "src" else ""} instead of the parser exception'
    shutil.rmtree(d, ignore_errors=True)
    if bad:
        report.condition('slice.long_paths', 'concrete', 'violated', time.time() - t0, n_cases, bad)
        report.violation('slice.long_paths', bad.split(':')[0], bad)
    else:
        report.condition('slice.long_paths', 'concrete', 'holds', time.time() - t0, n_cases, 'rings of 2..150 cells rejected, chains translated (concrete probe, not a solver verdict)')


def run(report, tier, seed):
    to = 400 if tier == 'quick' else 1500
    long_paths(report)
    res = e2.run_jobs([(f'graphs_rot{r}', _job, (r, to)) for r in range(len(MENU))] + [(f'graphs_uniform{r}', _job, (r, to, True)) for r in range(len(MENU))]
                      + [(f'graphs_rangeedges{r}', _job, (r, to, False, True)) for r in range(len(MENU))], NCPU, deadline=to * 2 + 60)
    for name, r in sorted(res.items()):
        cname = 'slice.' + name
        if 'error' in r:
            report.condition(cname, 'E2', 'inconclusive', detail=r['error'])
            continue
        report.queries += r['queries']
        if r['failures']:
            f = r['failures'][0][0]
            report.condition(cname, 'E2', 'violated', r['secs'], r['paths'], f['why'])
            report.violation(cname, f'edges={f["edges"]} rotation={f["rot"]}', f['why'])
        elif not r['complete']:
            report.condition(cname, 'E2', 'inconclusive', r['secs'], r['paths'], 'budget hit')
        else:
            report.condition(cname, 'E2', 'holds', r['secs'], r['paths'], 'all 512 graphs closed (whole translation + 3 entry points each)')
            report.sample(dict(job=cname, graphs=r['paths'], secs=r['secs']))
    report.encoded('CellTranslator._set_cell_to_context', 'CellTranslator.translate', 'CellTranslator.translate_file', 'Context.get_cell/set_cell/set_sub_cell/build_class',
                   'OperandTokenTranslator.translate', 'MatrixOfCellIdentifiersTokenTranslator.translate', 'Parser._translate (entry point branch)', 'Excel.fill_cell')
    report.bound('3 formula cells (Jan!E1, Jan!E2, Feb!E1), every subset of the 9 possible edges (self loops, cross-sheet edges), 5 rotations + 5 uniform assignments (identical formula text on both sheets) + 5 rotations with edges spelled as one-cell areas (SUM(E2:E2)) of the base formulas over 3x3 '
                 'constant blocks on both sheets; whole translation + entry-point translation from each formula cell')
    report.assume('the solver enumerates the finite graph space; every case runs natively on a real .xlsx',
                  'outside the claim: more than 3 formula cells, dependencies through criteria ranges / INDEX / COLUMN, graphs deeper than 3')
    shutil.rmtree(os.path.join(WORK, 'C03', 'c03'), ignore_errors=True)


def replay(rp):
    print(rp)
    return 0
