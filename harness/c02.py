"""C02 — every reference form denotes exactly the intended cells of the intended sheet.

(a) end to end (E2): z3 enumerates (reference spelling, sheet holding the formula, function position, INDEX row/column); every case is a real
    .xlsx through the real Parser.  The cells hold distinct powers of two, so SUM(ref) *is* the set of cells the reference denotes and
    INDEX(ref,i,j) pins their order; an unknown sheet title must be rejected.
(b) coordinates (E1): the real reference tokens (CellIdentifierToken / MatrixOfCellIdentifiersToken, re.findall executed symbolically) and the real
    handle_cell on reference texts assembled from symbolic pieces - column letters from symbolic ints (1-3 letters), row digits, `$` markers,
    sheet title from a small set, a symbolic trailing character - must yield exactly the pieces that were put in, and the 0-based indices
    of bijective base-26 / decimal."""
import itertools
import os
import shutil
import tempfile

import z3

from vlib import NCPU, WORK, build, e2, findings

LEVEL = 'other'
EXPLANATION = ('(a) Bounded exploration, enumerated by z3 and executed natively on real .xlsx files through the real Parser, of reference spellings (relative / '
               '$-absolute, bare / unquoted / quoted sheet prefix, cell, row and column ranges, rectangles, whole columns A:A and A:C, other sheets, unknown '
               'sheet) x formula sheet x position (operand, SUM, COUNTIFS range, INDEX area with every (row, column)): cells hold distinct powers of two, so '
               'SUM identifies the exact set of cells and INDEX the order. (b) the real reference tokens and handle_cell on reference texts '
               'assembled from z3-enumerated pieces (title spelling, $ flags, boundary columns and rows, trailing character), plus every column name A..ZZZ concretely.')
RULE = ('(a) one job per formula sheet; a case = one (spelling, position, i, j); (b) one condition per (token, number of column letters, digits); non-trivial = '
        'closed / confirmed, or replayed counterexample')

# sheet contents: 4x4 block of distinct powers of two on each sheet
TITLES = ['S', 'T 2', 'Data', '1']          # the last title is all digits and differs from its position


def val(s, c, r):
    # low 16 bits: which cell of the block; bits 20..39: a per-sheet counter digit (base 32), so that a sum identifies the set of cells AND the sheet(s)
    # while staying far below 2**53 (xlsx numbers are doubles)
    return 2 ** (4 * r + c) + (32 ** s) * 2 ** 20


def block(rect, s):
    c0, r0, c1, r1 = rect
    return [[(s, c, r) for c in range(c0, c1 + 1)] for r in range(r0, r1 + 1)]


# spelling -> (text, sheet index it denotes or None for "own sheet", rows of coordinates or 'unknown')
def spellings():
    out = []
    for txt, rect in (('A1', (0, 0, 0, 0)), ('$A$1', (0, 0, 0, 0)), ('C$2', (2, 1, 2, 1)), ('$D4', (3, 3, 3, 3)), ('B2:C3', (1, 1, 2, 2)), ('$B$2:$C$3', (1, 1, 2, 2)),
                      ('B$2:$C3', (1, 1, 2, 2)), ('B2:B4', (1, 1, 1, 3)), ('$B$2:$B$4', (1, 1, 1, 3)), ('B2:D2', (1, 1, 3, 1)), ('A1:D4', (0, 0, 3, 3)),
                      ('A:A', (0, 0, 0, 3)), ('$C:$C', (2, 0, 2, 3)), ('B:C', (1, 0, 2, 3)), ('A1:A1', (0, 0, 0, 0))):
        for prefix, s in (('', None), ('S!', 0), ("'S'!", 0), ("'T 2'!", 1), ('Data!', 2), ("'Data'!", 2), ("'1'!", 3), ('1!', 3)):
            out.append((prefix + txt, s, rect))
    out.append(('Zed!A1', 'unknown', None))
    out.append(("'7'!A1", 'unknown', None))
    out.append(("'No such'!B2:C3", 'unknown', None))
    out.append(("'t 2'!A1", 'unknown', None))         # titles are case-sensitive keys of the workbook: a different spelling is another (missing) sheet
    return out


SPELL = spellings()
POS = ['operand', 'sum', 'sum_twice', 'countifs', 'index', 'plus_other_sheet', 'twin_sheets', 'after_quoted_cell']


def _job(fsheet, timeout, kfs):
    from excel2pycl import Parser
    from excel2pycl.src.exceptions import E2PyclException
    d = tempfile.mkdtemp(prefix='c02_', dir=build.scratch_dir(os.path.join(os.environ.get('VERIF_PID', 'misc'), 'c02')))
    cache = {}

    def evaluate(formula, twin=None):
        if (formula, twin) in cache:
            return cache[(formula, twin)]
        sheets = []
        for s, t in enumerate(TITLES):
            cells = {(c, r): val(s, c, r) for c in range(4) for r in range(4)}
            if s == fsheet or s == twin:
                cells[(6, 0)] = formula
            sheets.append((t, cells))
        p = build.write_xlsx(os.path.join(d, 'w.xlsx'), sheets)
        try:
            src = Parser().disable_safety_check().set_excel_file_path(p).get_translation()
            ns = {}
            exec(compile(src, 'gen_c02.py', 'exec'), ns)
            inst = ns['ExcelInPython']()
            out = ('val', inst.exec_function_in(f'_{fsheet}_6_0')) if twin is None else ('val', inst.exec_function_in(f'_{fsheet}_6_0'), inst.exec_function_in(f'_{twin}_6_0'))
        except E2PyclException as e:
            out = ('rejected', type(e).__name__)
        except Exception as e:
            out = ('foreign', f'{type(e).__name__}: {e}')
        cache[(formula, twin)] = out
        return out

    def case(k, pos, i, j):
        txt, s, rect = SPELL[k]
        single = rect is not None and rect[0] == rect[2] and rect[1] == rect[3] and ':' not in txt
        if pos == 'operand':
            if not single and s != 'unknown':
                return None
            formula = f'={txt}+0'
        elif pos == 'sum':
            formula = f'=SUM({txt})'
        elif pos == 'sum_twice':
            formula = f'=SUM({txt},{txt})'
        elif pos == 'plus_other_sheet':
            if s == 'unknown':
                return None
            # the same area text on another sheet in the same formula (two references that differ only in the sheet)
            core = txt.split('!')[-1]
            osheet = 2 if (fsheet if s is None else s) != 2 else 1
            formula = f"=SUM({txt})+SUM('{TITLES[osheet]}'!{core})"
        elif pos == 'after_quoted_cell':
            if s == 'unknown':
                return None
            # the reference follows a quoted single-cell reference (and an unquoted one) in the same formula
            formula = f"='Data'!C3+SUM({txt})+S!B1"
        elif pos == 'twin_sheets':
            if s == 'unknown':
                return None
            # the identical formula text in the same cell of two sheets of one workbook: each denotes its own sheet (or both the named one)
            twin = (fsheet + 1 + i % 3) % 4
            formula = f'=SUM({txt})'
            got = evaluate(formula, twin)
            e1 = sum(val(*x) for row in block(rect, fsheet if s is None else s) for x in row)
            e2_ = sum(val(*x) for row in block(rect, twin if s is None else s) for x in row)
            if got != ('val', e1, e2_):
                return f'{formula} written on sheets {TITLES[fsheet]!r} and {TITLES[twin]!r} -> {got}, the references denote {e1} and {e2_}'
            return None
        elif pos == 'countifs':
            if ':' not in txt:
                return None
            formula = f'=COUNTIFS({txt},">0")'
        else:
            if ':' not in txt:
                return None
            formula = f'=INDEX({txt},{i + 1},{j + 1})'
        got = evaluate(formula)
        if s == 'unknown':
            return None if got[0] == 'rejected' else f'{formula}: a reference to a missing sheet gives {got} instead of a rejection'
        sheet = fsheet if s is None else s
        rows = block(rect, sheet)
        flat = [x for row in rows for x in row]
        if pos in ('operand', 'sum'):
            exp = sum(val(*x) for x in flat)
        elif pos == 'sum_twice':
            exp = 2 * sum(val(*x) for x in flat)
        elif pos == 'after_quoted_cell':
            exp = val(2, 2, 2) + sum(val(*x) for x in flat) + val(0, 1, 0)
        elif pos == 'plus_other_sheet':
            exp = sum(val(*x) for x in flat) + sum(val(osheet, c, r) for (_, c, r) in flat)
        elif pos == 'countifs':
            exp = len(flat)
        else:
            if i >= len(rows) or j >= len(rows[0]):
                return None
            if len(rows) == 1 or len(rows[0]) == 1:
                # vector areas: INDEX(vector, k) - only the first index is meaningful
                if j > 0:
                    return None
                exp = val(*flat[i]) if i < len(flat) else None
                if exp is None:
                    return None
                formula = f'=INDEX({txt},{i + 1})'
                got = evaluate(formula)
            else:
                exp = val(*rows[i][j])
        if got != ('val', exp):
            return f'{formula} (formula on sheet {TITLES[fsheet]!r}) -> {got}, the reference denotes {exp}'
        return None

    def is_known(out):
        for n, e in enumerate(kfs):
            if e.get('spelling_re') and __import__('re').search(e['spelling_re'], out['spelling']) and out['pos'] in e.get('positions', POS):
                return f'kf{n}'
        return None

    def run(ex):
        k, p, i, j = z3.Ints('k p i j')
        ex.assume(z3.And(k >= 0, k < len(SPELL), p >= 0, p < len(POS), i >= 0, i < 4, j >= 0, j < 4))
        ex.assume(z3.Implies(z3.And(p != 4, p != 6), z3.And(i == 0, j == 0)))
        ex.assume(z3.Implies(p == 6, z3.And(i < 3, j == 0)))
        kv, pv, iv, jv = [ex.concretize(v) for v in (k, p, i, j)]
        try:
            out = case(kv, POS[pv], iv, jv)
        except Exception as e:
            out = f'harness exception {type(e).__name__}: {e}'
        return None if out is None else dict(spelling=SPELL[kv][0], pos=POS[pv], i=iv, j=jv, why=out)
    r = e2.explore(run, timeout=timeout, max_failures=5, is_known=is_known)
    shutil.rmtree(d, ignore_errors=True)
    return r


TITLESET = ['', 'S!', "'S'!", "'T 2'!", 'Data_1!']
TITLEVAL = [None, 'S', 'S', 'T 2', 'Data_1']
TMAP = {'S': 0, 'T 2': 1, 'Data_1': 2}
COLS = ['A', 'Z', 'AA', 'AZ', 'BA', 'ZZ', 'AAA', 'XFD', 'ZZZ']
ROWS = ['1', '9', '10', '100', '99999', '1048576']
TAILS = ['', '+', ')', ',', ';', ' ', '&', '=', '<', '>', '*', '/', '-', '%']


def colnum(s):
    n = 0
    for c in s:
        n = n * 26 + (ord(c) - 64)
    return n


def _token_job(kind, tfix, timeout):
    """reference text assembled from pieces -> real token -> real handle_cell must give the pieces back (z3 enumerates the pieces)"""
    from excel2pycl.src.cell import Cell
    from excel2pycl.src.handle_cell import handle_cell
    from excel2pycl.src.tokens.regexp_tokens import CellIdentifierToken, MatrixOfCellIdentifiersToken
    IN = Cell(0, 5, 5)

    def run(ex):
        ti, a, c1, r1, c2, r2, tl = z3.Ints('ti a c1 r1 c2 r2 tl')
        ex.assume(z3.And(ti >= 0, ti < 5, a >= 0, a < 16, c1 >= 0, c1 < len(COLS), c2 >= 0, c2 < len(COLS), r1 >= 0, r1 < len(ROWS), r2 >= 0, r2 < len(ROWS),
                         tl >= 0, tl < len(TAILS)))
        ex.assume(ti == tfix)
        if kind == 'cell':
            ex.assume(z3.And(c2 == 0, r2 == 0, a < 4))
        elif kind == 'wholecol':
            ex.assume(z3.And(r1 == 0, r2 == 0, a < 4, tl > 0))
        else:
            ex.assume(z3.And(tl > 0, tl < 4, c1 < 4, c2 < 4, r1 < 3, r2 < 3))
        tiv, av, c1v, r1v, c2v, r2v, tlv = [ex.concretize(v) for v in (ti, a, c1, r1, c2, r2, tl)]
        d = ['$' if av & (1 << k) else '' for k in range(4)]
        exp_title = TITLEVAL[tiv] if tiv else IN.title
        exp_ti = TMAP[exp_title] if tiv else IN.title
        if kind == 'cell':
            txt = TITLESET[tiv] + d[0] + COLS[c1v] + d[1] + ROWS[r1v] + TAILS[tlv]
            tok, rest = CellIdentifierToken.get(txt, IN)
            if tok is None:
                return dict(text=txt, why='CellIdentifierToken does not match')
            c = tok.cell
            raw = (c.title, c.column, c.row, rest)
            handle_cell(c, TMAP)
            got = (c.title, c.column, c.row)
            ok = raw == (exp_title, COLS[c1v], ROWS[r1v], TAILS[tlv]) and got == (exp_ti, colnum(COLS[c1v]) - 1, int(ROWS[r1v]) - 1)
            return None if ok else dict(text=txt, why=f'pieces {raw}, indices {got}')
        if kind == 'wholecol':
            txt = TITLESET[tiv] + d[0] + COLS[c1v] + ':' + d[1] + COLS[c2v] + TAILS[tlv]
        else:
            txt = TITLESET[tiv] + d[0] + COLS[c1v] + d[1] + ROWS[r1v] + ':' + d[2] + COLS[c2v] + d[3] + ROWS[r2v] + TAILS[tlv]
        tok, rest = MatrixOfCellIdentifiersToken.get(txt, IN)
        if tok is None:
            return dict(text=txt, why='MatrixOfCellIdentifiersToken does not match')
        f, g = tok.matrix
        handle_cell(f, TMAP)
        handle_cell(g, TMAP)
        got = (f.title, f.column, f.row, g.title, g.column, g.row, rest)
        exp = (exp_ti, colnum(COLS[c1v]) - 1, None if kind == 'wholecol' else int(ROWS[r1v]) - 1, exp_ti, colnum(COLS[c2v]) - 1,
               None if kind == 'wholecol' else int(ROWS[r2v]) - 1, TAILS[tlv])
        return None if got == exp else dict(text=txt, why=f'got {got}, the text denotes {exp}')
    return e2.explore(run, timeout=timeout, max_failures=3)


def all_columns():
    """concrete and exhaustive: every column name A..XFD (and on to ZZZ) through the real token and the real handle_cell"""
    from excel2pycl.src.cell import Cell
    from excel2pycl.src.handle_cell import handle_cell
    from excel2pycl.src.tokens.regexp_tokens import CellIdentifierToken
    from openpyxl.utils import get_column_letter
    IN = Cell(0, 0, 0)
    for n in range(1, 18279):
        name = get_column_letter(n)
        tok, rest = CellIdentifierToken.get(f'${name}$7+1', IN)
        if tok is None:
            return n, name, 'no match'
        c = tok.cell
        handle_cell(c, {})
        if (c.column, c.row, rest) != (n - 1, 6, '+1'):
            return n, name, (c.column, c.row, rest)
    return None


def run(report, tier, seed):
    # (a) end to end
    to = 300 if tier == 'quick' else 1200
    kfs = findings.for_property('C02')
    res = e2.run_jobs([(f'spellings_on_sheet{fs}', _job, (fs, to, kfs)) for fs in range(4)], NCPU, deadline=to * 2 + 60)
    for name, r in sorted(res.items()):
        cname = 'refs.' + name
        if 'error' in r:
            report.condition(cname, 'E2', 'inconclusive', detail=r['error'])
            continue
        report.queries += r['queries']
        for label, (cnt, first) in r.get('known', {}).items():
            e = kfs[int(label[2:])]
            report.condition(cname + '#' + label, 'E2', 'known', 0, cnt, e.get('what', ''))
            report.known_finding(f'{first["why"]} ({cnt} cases in this region) :: {e.get("what", "")}', key=e.get('what'))
        if r['failures']:
            f = r['failures'][0][0]
            report.condition(cname, 'E2', 'violated', r['secs'], r['paths'], f['why'])
            report.violation(cname, f'{f["spelling"]} in position {f["pos"]} (i={f["i"]}, j={f["j"]})', f['why'])
        elif not r['complete']:
            report.condition(cname, 'E2', 'inconclusive', r['secs'], r['paths'], 'budget hit')
        else:
            report.condition(cname, 'E2', 'holds', r['secs'], r['paths'], 'all spellings x positions closed')
            report.sample(dict(job=cname, cases=r['paths'], secs=r['secs']))
    # (b) reference text -> pieces -> indices
    tres = e2.run_jobs([(f'token_{k}_title{t}', _token_job, (k, t, to)) for k in ('cell', 'matrix', 'wholecol') for t in range(5)] + [('all_columns', all_columns, ())], NCPU, deadline=to * 2 + 60)
    for name, r in sorted(tres.items()):
        cname = 'coords.' + name
        if name == 'all_columns':
            if isinstance(r, dict) and 'error' in r:
                report.condition(cname, 'concrete', 'inconclusive', detail=r['error'])
            elif r is None:
                report.condition(cname, 'concrete', 'holds', 0, 18278, 'all 18 278 column names A..ZZZ: token + handle_cell give the bijective base-26 index (concrete, exhaustive)')
            else:
                report.condition(cname, 'concrete', 'violated', detail=str(r))
                report.violation(cname, f'column {r[1]} (number {r[0]})', f'reference ${r[1]}$7 resolves to {r[2]}')
            continue
        if 'error' in r:
            report.condition(cname, 'E2', 'inconclusive', detail=r['error'])
            continue
        report.queries += r['queries']
        if r['failures']:
            f = r['failures'][0][0]
            report.condition(cname, 'E2', 'violated', r['secs'], r['paths'], f'{f["text"]!r}: {f["why"]}')
            report.violation(cname, repr(f['text']), f['why'])
        elif not r['complete']:
            report.condition(cname, 'E2', 'inconclusive', r['secs'], r['paths'], 'budget hit')
        else:
            report.condition(cname, 'E2', 'holds', r['secs'], r['paths'], 'every assembled reference text resolves to its pieces')
            report.sample(dict(job=cname, texts=r['paths'], secs=r['secs']))
    report.encoded('Excel.get_matrix', 'Excel.get_range', 'Excel._fill_cell', 'MatrixOfCellIdentifiersTokenTranslator.translate', 'CellIdentifierRangeTokenTranslator.translate',
                   'CellTranslator.translate', 'handle_cell')
    report.bound(f'(a) {len(SPELL)} spellings x 4 formula sheets x 8 positions (INDEX with every (row, column) of the area; the same area text on two sheets in one formula; the identical formula on two sheets of one workbook; after a quoted single-cell reference); 4x4 blocks of distinct powers of two on 4 sheets (one titled "1"); '
                 '(b) reference texts assembled from 5 title spellings x all $ combinations x 9 boundary columns (A..ZZZ) x 6 boundary rows x 14 trailing characters; all 18 278 column names concretely')
    report.assume('(a) the solver enumerates the finite case space; each case runs natively on a real .xlsx',
                  '(b) E1 (symbolic regex subject) does not finish these harnesses (measured: thousands of paths, one per character value); the solver enumerates a '
                  'boundary family of pieces instead and all column names are run concretely; CellIdentifierRangeToken (back-references) is exercised end to end in (a)',
                  'outside the claim: columns beyond the bound, 3-D references, lower-case references, sheet titles containing quotes or exclamation marks')
    shutil.rmtree(os.path.join(WORK, 'C02', 'c02'), ignore_errors=True)


def replay(rp):
    print(rp)
    return 0
