"""C20 — the importable runtime base class and the emitted runtime agree.

Tier 1  member sets / signatures of AbstractExcelInPython and of the class regenerated from Context.build_class()   (introspection)
Tier 2  normalised ASTs of same-named members + identity of the module-level bindings they use  => identical behaviour, no bound
Tier 3  every member whose ASTs differ: E1 differential harness (value-or-exception-type of both on the same symbolic
        arguments); plus a stateful differential (set_arguments / exec_function_in histories) of a generated class against
        a subclass of the base carrying the same cell methods.  In the thorough tier the differential harnesses run for
        *all* members, whether their ASTs differ or not."""
import ast
import inspect
import time

from vlib import build
from vlib.e1 import Suite

LEVEL = 'translation_validation'
EXPLANATION = ('Translation validation of the two runtime copies: per helper the normalised ASTs of AbstractExcelInPython.<helper> and of the same '
               'helper in the class text regenerated from Context.build_class() are compared (identical AST + identical module-level bindings => '
               'identical behaviour for all arguments); helpers whose ASTs differ are decided by CrossHair/z3 differential harnesses on symbolic '
               'arguments (value-or-exception-type must agree); a stateful differential runs set_arguments/exec_function_in histories on a generated '
               'class and on a subclass of the base carrying the same cell methods.')
RULE = ('program = one helper pair (base, emitted); disagreement = AST difference, each decided by an E1 differential condition; non-trivial = '
        'AST-identical pair, or differential confirmed over all paths / replay-confirmed counterexample')

PRE = r'''
import datetime
from typing import List, Tuple, Optional, Union
from vlib import build
KG = build.load_class(build.runtime_source(), '_rt')
KB = build.load_base_class()
G, B = KG(), KB()

def outcome(fn):
    try:
        return ('val', fn())
    except Exception as e:
        return ('exc', type(e).__name__)

def same(x, y):
    if x[0] != y[0]:
        return False
    if x[0] == 'exc':
        return x[1] == y[1]
    a, b = x[1], y[1]
    if type(a).__name__ == 'EmptyCell' or type(b).__name__ == 'EmptyCell':
        return type(a).__name__ == 'EmptyCell' and type(b).__name__ == 'EmptyCell'
    return a == b and type(a) is type(b)

def both(name, *args):
    return same(outcome(lambda: getattr(G, name)(*args)), outcome(lambda: getattr(B, name)(*args)))

def cell(x):
    """Union value -> cell content as both runtimes see it (None -> EmptyCell of the respective class is immaterial: plain None)"""
    return x

OPS = ['<', '<=', '>', '>=', '==', '!=', '??']

# stateful differential: a generated class for a small workbook vs a subclass of the base with the same cell methods
_SRC = build.translate_formulas({'B1': '=A1+A2', 'B2': '=SUM(A1:A3)', 'B3': '=IF(A1>A2,B1,B2)', 'B4': '=B1*B2'}, {'A1': 1, 'A2': 2, 'A3': 3})
KGW = build.load_class(_SRC, '_kgw')
_cellfns = {k: v for k, v in vars(KGW).items() if callable(v) and k[:2] in ('_0',)}
def _binit(self, arguments=None):
    KB.__init__(self, arguments)
    self._titles = {'S': 0}
    self._sheets_size = [{'last_column': 2, 'last_row': 4}]
KBW = type('HandWritten', (KB,), dict(_cellfns, __init__=_binit))
CELLS = ['_0_1_0', '_0_1_1', '_0_1_2', '_0_1_3', '_0_0_0', '_0_0_5']
'''

ASCII = "all(c in 'abAB1.?*~-' for c in {})"

# helper -> (signature, precondition, call arguments)   (symbolic arguments for the differential tier)
TABLE = {
    '_compare': ('op: int, a: Union[int, float, str], b: Union[int, float, str]', '0 <= op < 7 and (not isinstance(a, str) or len(a) <= 2) and (not isinstance(b, str) or len(b) <= 2)', 'OPS[op], a, b'),
    '_by_operator': ('op: int, a: int, b: int', '0 <= op < 7', 'OPS[op], a, b'),
    '_flatten_list': ('a: List[int], b: List[int]', 'len(a) <= 3 and len(b) <= 3', '[a, [b, a], 1]'),
    '_find_error_in_list': ('a: List[str]', "len(a) <= 3 and all(len(x) <= 7 for x in a)", 'a'),
    '_concat_arrays_values': ('a: List[int], b: List[int]', 'len(a) <= 3 and len(b) <= 3', 'a, b'),
    '_normalize_float_number': ('x: int', '-10**6 < x < 10**6', 'x / 8'),
    '_only_numeric_list': ('a: List[Union[int, bool, str, None]], w: bool', 'len(a) <= 3 and all(not isinstance(x, str) or len(x) <= 2 for x in a)', 'a, w'),
    '_only_bool_list': ('a: List[Union[int, bool, str]]', 'len(a) <= 3 and all(not isinstance(x, str) or len(x) <= 2 for x in a)', 'a'),
    '_only_datetime_list': ('a: List[Union[int, str]]', 'len(a) <= 3 and all(not isinstance(x, str) or len(x) <= 2 for x in a)', 'a + [datetime.datetime(2024, 1, 1)]'),
    '_regexp': ('p: str', 'len(p) <= 4 and ' + "all(c in 'ab?*~[].' for c in p)", 'p'),
    '_binary_search': ('keys: List[int], v: int, rev: bool', '1 <= len(keys) <= 4', '[[k] for k in keys], v, rev'),
    '_sum': ('a: List[Union[int, bool, str, None]]', 'len(a) <= 3 and all(not isinstance(x, str) or len(x) <= 2 for x in a)', 'a'),
    '_average': ('a: List[Union[int, bool]]', 'len(a) <= 3', 'a'),
    '_count': ('a: List[Union[int, bool, str, None]], b: List[Union[int, bool, str]]', 'len(a) <= 2 and len(b) <= 2 and all(not isinstance(x, str) or len(x) <= 2 for x in a + b)', '[[a]], b, a'),
    '_match': ('keys: List[int], v: int, t: int', 'len(keys) <= 3 and -1 <= t <= 1', 'v, [[k] for k in keys], t'),
    '_xmatch': ('keys: List[int], v: int, m: int, s: int', 'len(keys) <= 3 and -1 <= m <= 1 and -2 <= s <= 2', 'v, [[k] for k in keys], m, s'),
    '_vlookup': ('keys: List[int], v: int, c: int, rl: bool', '1 <= len(keys) <= 3 and 1 <= c <= 2', 'v, [[k, k + 100] for k in keys], c, rl'),
    '_vlookup_default': ('keys: List[int], v: int', '1 <= len(keys) <= 3', None),
    '_sum_if': ('a: List[int], b: List[int], t: int', 'len(a) <= 3 and len(b) <= 3', '[a], (lambda x: x > t), [b]'),
    '_round': ('m: int, n: int', '-10**4 < m < 10**4 and -2 <= n <= 3', 'm / 16, n'),
    '_roundup': ('m: int, n: int', '-10**4 < m < 10**4 and 0 <= n <= 3', 'm / 16, n'),
    '_rounddown': ('m: int, n: int', '-10**4 < m < 10**4 and 0 <= n <= 3', 'm / 16, n'),
    '_date': ('m: int, d: int', '-12 <= m <= 24 and -40 <= d <= 70', '2024, m, d'),
    '_date_str': ('y: str', 'len(y) <= 4 and ' + "all(c in '0129x' for c in y)", None),
    '_datedif': ('m1: int, d1: int, m2: int, d2: int, u: int', '1 <= m1 <= 12 and 1 <= m2 <= 12 and 1 <= d1 <= 28 and 1 <= d2 <= 28 and 0 <= u < 7', None),
    '_eomonth': ('d: int, k: int', '1 <= d <= 31 and -14 <= k <= 14', 'datetime.datetime(2024, 1, d), k'),
    '_edate': ('d: int, k: int', '1 <= d <= 31 and -14 <= k <= 14', 'datetime.datetime(2024, 1, d), k'),
    '_left': ('t: str, n: Optional[int]', 'len(t) <= 3 and (n is None or -2 <= n <= 5)', 't, n'),
    '_right': ('t: str, n: Optional[int]', 'len(t) <= 3 and (n is None or -2 <= n <= 5)', 't, n'),
    '_mid': ('t: str, k: int, n: int', 'len(t) <= 3 and -2 <= k <= 5 and -2 <= n <= 5', 't, k, n'),
    '_address': ('r: int, c: int, t: int, a1: bool', '1 <= r <= 100 and 1 <= c <= 800 and 0 <= t <= 5', "r, c, str(t), str(a1), 'Sh'"),
    '_or': ('a: List[Union[int, bool]], b: List[Union[int, bool]]', 'len(a) <= 2 and len(b) <= 2', 'a + [b, [b]]'),
    '_and': ('a: List[Union[int, bool]], b: List[Union[int, bool]]', 'len(a) <= 2 and len(b) <= 2', 'a + [b, [b]]'),
    '_min': ('a: List[Union[int, str, None]]', 'len(a) <= 3 and all(not isinstance(x, str) or len(x) <= 7 for x in a)', 'a'),
    '_max': ('a: List[Union[int, str, None]]', 'len(a) <= 3 and all(not isinstance(x, str) or len(x) <= 7 for x in a)', 'a'),
    '_day': ('d: int', '1 <= d <= 31', 'datetime.datetime(2024, 1, d)'),
    '_month': ('m: int', '1 <= m <= 12', 'datetime.datetime(2024, m, 1)'),
    '_year': ('y: int', '2000 <= y <= 2030', 'datetime.datetime(y, 1, 1)'),
    '_iferror': ('x: Union[int, str], k: int', '(not isinstance(x, str) or len(x) <= 7) and 0 <= k <= 1', '(lambda: x if k else [][0]), -1'),
    '_when_cell_is_empty_cast_to_zero': ('a: List[Union[int, str]]', 'len(a) <= 3 and all(not isinstance(x, str) or len(x) <= 2 for x in a)', 'a'),
    '_averageifs': ('a: List[int], b: List[int], t: int', 'len(a) <= 3 and len(b) <= 3', '[a], [b], (lambda x: x > t)'),
    '_countifs': ('a: List[int], b: List[int], t: int', 'len(a) <= 3 and len(b) <= 3', '[a], (lambda x: x > t), [b], (lambda x: x < t)'),
    '_sumifs': ('a: List[int], b: List[int], t: int', 'len(a) <= 3 and len(b) <= 3', '[a], [b], (lambda x: x > t)'),
    '_network_days': ('d: int, n: int', '1 <= d <= 7 and -7 <= n <= 7', 'datetime.datetime(2024, 1, d), datetime.datetime(2024, 1, d) + datetime.timedelta(days=n), None'),
    '_network_days_tod': ('d: int, n: int, h1: int, h2: int', '1 <= d <= 7 and -1 <= n <= 1 and 0 <= h1 <= 23 and 0 <= h2 <= 23',
                          'datetime.datetime(2024, 1, d, h1), datetime.datetime(2024, 1, d, h2) + datetime.timedelta(days=n), None'),     # times of day: the direction is decided on the dates
    '_index': ('r: int, c: Optional[int], a: int', '0 <= r <= 4 and (c is None or 0 <= c <= 4) and 1 <= a <= 3', '([[1, 2], [3, 4]], [[5, 6], [7, 8]]), r, c, a'),
    '_count_blank': ('a: List[Union[int, str, None]]', 'len(a) <= 3 and all(not isinstance(x, str) or len(x) <= 7 for x in a)', 'a'),
    '_ifs': ('a: List[Union[int, bool, str]]', 'len(a) <= 4 and all(not isinstance(x, str) or len(x) <= 7 for x in a)', 'a'),
    '_search': ('f: str, t: str, s: Optional[int]', "1 <= len(f) <= 2 and len(t) <= 3 and all(c in 'aA?*~' for c in f + t) and (s is None or 0 <= s <= 4)", 'f, t, s'),
    '_excel_value_to_string': ('x: Union[int, str, bool], d: int', '(not isinstance(x, str) or len(x) <= 2) and 1 <= d <= 28', None),
    '_value': ('t: str', "len(t) <= 4 and all(c in '0123456789 ,.%-:/' for c in t)", 't'),
    '_parse_date_obj': ('t: str', "len(t) <= 3 and all(c in '0123456789-/a' for c in t)", 't'),
    '_parse_date_formats': ('d: int', '1 <= d <= 28', "'%02d/01/2024' % d, '%d/%m/%Y'"),
    '_value_parts': ('d1: int, si: int, d2: int, w: int', '0 <= d1 <= 12 and 0 <= si < 10 and 0 <= d2 <= 3 and 0 <= w <= 2', None),
    'EmptyCell': ('x: Union[int, str, bool, None], op: int', '(not isinstance(x, str) or len(x) <= 2) and 0 <= op < 6', None),
}
SPECIAL = {
    '_value_parts': ("from crosshair import realize\n"
                     "t = ['', ' ', '-'][realize(w)] + str(realize(d1)) + [' ', ',', '.', '%', '-', ':', '/', chr(160), '', ' %'][realize(si)] + ['0', '5', '34', '234'][realize(d2)]\n"
                     "return both('_value', t) and both('_value', t + '%')"),
    '_vlookup_default': "return same(outcome(lambda: G._vlookup(v, [[k, k + 100] for k in keys], 2)), outcome(lambda: B._vlookup(v, [[k, k + 100] for k in keys], 2)))",
    '_date_str': "return both('_date', y, 1, 1) and both('_date', 2024, y, 1) and both('_date', 2024, 1, y)",
    '_datedif': "return both('_datedif', datetime.datetime(2023, m1, d1), datetime.datetime(2024, m2, d2), ['Y', 'M', 'D', 'MD', 'YM', 'YD', 'X'][u])",
    '_excel_value_to_string': "return both('_excel_value_to_string', x) and both('_excel_value_to_string', datetime.datetime(2024, 1, d))",
    'EmptyCell': ("o = ['__lt__', '__le__', '__gt__', '__ge__', '__eq__', '__ne__'][op]\n"
                  "return same(outcome(lambda: getattr(KG.EmptyCell(), o)(x)), outcome(lambda: getattr(KB.EmptyCell(), o)(x)))"),
}
HELPER_OF = {'_network_days_tod': '_network_days', '_vlookup_default': '_vlookup', '_date_str': '_date', '_value_parts': '_value'}


def _strings(alpha, n, lo=0):
    import itertools
    return [''.join(t) for k in range(lo, n + 1) for t in itertools.product(alpha, repeat=k)]


def _lists(vals, n):
    import itertools
    return [list(t) for k in range(n + 1) for t in itertools.product(vals, repeat=k)]


def native_grid(key, ns):
    """finite argument grid for the helpers whose symbolic differential does not close (floats, regex, C-level date parsing): every tuple is run on
    both copies natively.  Exhaustive over the stated box, NOT a solver verdict."""
    import datetime as dt
    import itertools
    E = ns['KG'].EmptyCell
    mixed = [0, 1, -1, 2.5, 1e-9, 10 ** 17, '', 'a', 'A', 'ab', '1', '1.0', '-1', '1e3', True, False, None, dt.date(2024, 1, 1), dt.datetime(2024, 1, 1), dt.datetime(2024, 1, 1, 12), [1]]
    if key == '_compare':
        return [(o, a, b) for o in ns['OPS'] for a in mixed for b in mixed]
    if key == '_concat_arrays_values':
        return [(a, b) for a in _lists([1, 'a', None, 2.5], 2) for b in _lists([0, 'b', True], 2)]
    if key == '_normalize_float_number':
        return [(x / 8,) for x in range(-3000, 3000)] + [(m * 10.0 ** e,) for m in (1, 3, 7, 123456789, 0.1 + 0.2) for e in range(-20, 20)] + [(0,), (0.0,), (-0.0,), (1e300,), (float('inf'),), ('a',), (None,)]
    if key == '_regexp':
        return [(p,) for p in _strings('ab?*~[].', 4)] + [(p,) for p in _strings('a?*~\\(|+$^{', 3)]
    if key == '_average':
        return [(l,) for l in _lists([0, 1, -2, True, False, 2.5, 'a'], 3)]
    if key == '_count':
        return [([[a]], b, a) for a in _lists([0, 'a', None, True, '7', 2.5], 2) for b in _lists([1, 'b', False], 2)]
    if key in ('_round', '_roundup', '_rounddown'):
        return [(m / 16, n) for m in range(-1500, 1500) for n in range(-2, 4)] + [(m, n) for m in (-1260, -15, -1, 0, 1, 5, 15, 25, 1250, 1260, 99999) for n in range(-3, 3)] + [(2.5, 0.0), (2.5, '1'), ('a', 1), (True, 0)]
    if key == '_date_str':
        return [(y,) for y in _strings('0129x', 3)]
    if key == '_date':
        return [(y, m, d) for y in (0, 1, 99, 1899, 1900, 2023, 2024, 9999, 10000, -1) for m in range(-13, 26) for d in (-40, -1, 0, 1, 28, 29, 30, 31, 32, 70)]
    if key == '_address':
        return [(r, c, t, a1, sh) for r in (1, 7, 100) for c in (1, 26, 27, 52, 702, 703, 800) for t in ('0', '1', '2', '3', '4', '5', 1, 4) for a1 in ('True', 'False', True, False, 0) for sh in ('Sh', 'my sheet')] + \
               [(r, c) for r in (1, 9) for c in (1, 28)] + [(1, 1, 1), (1, 1, '4'), (1, 1, 4, False)]
    if key in ('_averageifs', '_sumifs'):
        return [([a], [b], (lambda x, t=t: x > t)) for a in _lists([0, 1, 5], 3) for b in _lists([0, 1, 5], 3) for t in (0, 3)] + \
               [(a, b, (lambda x, t=t: x > t)) for a in _lists([0, 1, 5], 3) for b in _lists([0, 1, 5], 3) for t in (0, 3)]        # flat lists as well
    if key == '_countifs':
        return [(a, (lambda x, t=t: x > t), b, (lambda x, t=t: x < t + 4)) for a in _lists([0, 1, 5], 3) for b in _lists([0, 1, 5], 3) for t in (0, 3)] + \
               [([a], (lambda x, t=t: x > t)) for a in _lists([0, 1, 5, 'a'], 3) for t in (0, 3)]
    if key == '_sum_if':
        return [(a, (lambda x, t=t: x > t), b) for a in _lists([0, 1, 5], 3) for b in _lists([0, 1, 5], 3) for t in (0, 3)] + [([a], (lambda x, t=t: x > t)) for a in _lists([0, 1, 5], 3) for t in (0, 3)]
    if key == '_parse_date_formats':
        return [(d, f) for d in ('2024-09-15', '2024-09-15 00:00:00', '15/09/2024', '15/09/2024 00:00:00', '09/25/2024 00:00:00', '2024-09-15 10:30:00', 'x', '', '15.09.2024 00:00:00')
                for f in ('%Y-%m-%d', '%d/%m/%Y', '%m/%d/%Y', '%d.%m.%Y', '%Y-%m-%d %H:%M:%S')]
    if key == '_ifs':
        return [(l,) for l in _lists([0, 1, True, False, 'a', '#N/A'], 4)]
    if key == '_search':
        return [(f, t, st) for f in _strings('aA?*~', 2, 1) for t in _strings('aA?*~', 3) for st in (None, 0, 1, 2, 3, 4)]
    if key == '_excel_value_to_string':
        return [(v,) for v in mixed if not isinstance(v, list)] + [(E(),)]
    if key == '_value':
        return [(t,) for t in _strings('019 ,.%-:/', 4)] + [(t,) for t in ('12/31/2024', '31.12.2024', '2024-01-31', '1 234,5', '12:30', '1e3', '$5', '5%', '', ' ', 'abc', '١٢')] + [(5,), (2.5,), (None,), (True,)]
    if key == '_parse_date_obj':
        return [(t,) for t in _strings('0123456789-/a', 3)] + [(t,) for t in ('2024-01-31', '31/01/2024', '01/31/2024', '2024-1-1', '2024-01-31 10:00:00', '>2024-01-31')] + [(dt.datetime(2024, 1, 1),), (dt.date(2024, 1, 1),), (5,), (None,)]
    if key in ('_left', '_right'):
        return [(t, n) for t in _strings('aB', 3) + [E(), 0, 12, None] for n in (None, -1, 0, 1, 2, 5)]
    if key == '_mid':
        return [(t, k, n) for t in _strings('aB', 3) + [E(), 12] for k in (-1, 0, 1, 2, 5) for n in (-1, 0, 1, 5)]
    if key in ('_or', '_and'):
        return [(l + [m, [m]],) for l in _lists([0, 1, True, False], 2) for m in _lists([0, True], 2)] + [([],), ([[]],), ([[[1]], 0],)]
    if key in ('_min', '_max', '_sum', '_count_blank'):
        return [(l,) for l in _lists([0, 3, -2, 'a', '', None, True, 2.5], 3)] + [([E(), 1],), ([E()],)]
    if key == '_flatten_list':
        return [(l,) for l in ([], [1], [[1], [2, [3]]], [[], [[]]], [1, [2, [3, [4]]]], ['ab', ['c']])]
    if key == '_index':
        return [(ar, r, c, a) for ar in ([[1, 2], [3, 4]], ([[1, 2], [3, 4]], [[5, 6], [7, 8]]), [[1, 2, 3]], [[1], [2], [3]]) for r in (None, 0, 1, 2, 3) for c in (None, 0, 1, 2, 3) for a in (None, 1, 2, 3)]
    if key == 'EmptyCell':
        return [(v, o) for v in mixed + [E()] for o in ('__lt__', '__le__', '__gt__', '__ge__', '__eq__', '__ne__', '__str__', '__hash__', '__bool__', '__repr__')]
    return None


def run_native_grid(report, key, helper, ns):
    grid = native_grid(key if key in ('EmptyCell',) else helper, ns)
    if grid is None:
        return
    t0 = time.time()
    G, B, same, outcome = ns['G'], ns['B'], ns['same'], ns['outcome']
    bad = None
    for args in grid:
        if key == 'EmptyCell':
            v, o = args
            x, y = outcome(lambda: getattr(ns['KG'].EmptyCell(), o)(*(() if o in ('__str__', '__hash__', '__bool__', '__repr__') else (v,)))), outcome(lambda: getattr(ns['KB'].EmptyCell(), o)(*(() if o in ('__str__', '__hash__', '__bool__', '__repr__') else (v,))))
        else:
            import copy
            ga, ba = copy.deepcopy(args), copy.deepcopy(args)
            x, y = outcome(lambda: getattr(G, helper)(*ga)), outcome(lambda: getattr(B, helper)(*ba))
            post = lambda t: repr([a for a in t if not callable(a)])
            if same(x, y) and post(ga) != post(ba):
                # same result, but one copy changed the caller's arguments and the other did not
                x, y = ('val', 'arguments afterwards: ' + post(ga)), ('val', 'arguments afterwards: ' + post(ba))
        if not same(x, y):
            bad = (args, x, y)
            break
    cname = f'grid.{key}'
    if bad:
        shown = ', '.join(repr(a) if not callable(a) else '<lambda>' for a in bad[0])
        detail = f'{helper}({shown}): emitted class -> {bad[1]}, base class -> {bad[2]}'
        report.condition(cname, 'grid', 'violated', time.time() - t0, len(grid), detail)
        report.violation(cname, f'{helper}({shown})', detail)
    else:
        report.condition(cname, 'grid', 'holds', time.time() - t0, len(grid), f'both copies agree on all {len(grid)} argument tuples of the native grid (exhaustive over the box; not a solver verdict)')


def members(src, clsname):
    t = ast.parse(src)
    for n in t.body:
        if isinstance(n, ast.ClassDef) and n.name == clsname:
            return {x.name: x for x in n.body if isinstance(x, (ast.FunctionDef, ast.ClassDef))}
    return {}


def norm(node):
    node = ast.parse(ast.unparse(node))
    for n in ast.walk(node):
        if isinstance(n, ast.FunctionDef):
            n.returns = None
            for a in n.args.args + n.args.kwonlyargs + n.args.posonlyargs:
                a.annotation = None
            if n.args.vararg:
                n.args.vararg.annotation = None
            if n.args.kwarg:
                n.args.kwarg.annotation = None
        if isinstance(n, (ast.FunctionDef, ast.ClassDef)):
            if n.body and isinstance(n.body[0], ast.Expr) and isinstance(n.body[0].value, ast.Constant) and isinstance(n.body[0].value.value, str):
                n.body = n.body[1:] or [ast.Pass()]
    # annotated assignments: keep target and value only
    class T(ast.NodeTransformer):
        def visit_AnnAssign(self, n):
            return ast.Assign(targets=[n.target], value=n.value, lineno=0) if n.value is not None else None
    node = T().visit(node)
    return ast.dump(node)


def free_globals(fnnode):
    names = set()
    for n in ast.walk(fnnode):
        if isinstance(n, ast.Name) and isinstance(n.ctx, ast.Load):
            names.add(n.id)
    return names


def run(report, tier, seed):
    t0 = time.time()
    gen_src = build.runtime_source()
    import excel2pycl.src.utilities.abstract_excel_in_python_class as bm
    with open(bm.__file__, encoding='utf-8') as f:
        base_src = f.read()
    a, b = members(gen_src, 'ExcelInPython'), members(base_src, 'AbstractExcelInPython')
    report.encoded('AbstractExcelInPython.* (all members)', 'ExcelInPython.* of Context.build_class() (all members)')
    # tier 1: member sets and signatures
    only_gen, only_base = sorted(set(a) - set(b)), sorted(set(b) - set(a))
    if only_gen or only_base:
        report.condition('members.same_set', 'introspection', 'violated', detail=f'only emitted: {only_gen}; only base: {only_base}')
        report.violation('members.same_set', f'emitted-only={only_gen} base-only={only_base}', 'the two runtimes do not expose the same helpers')
    else:
        report.condition('members.same_set', 'introspection', 'holds', detail=f'{len(a)} members')
    # module-level bindings used by the helpers must be the same objects in both modules
    gns, bns = {}, {}
    exec(compile(gen_src, '_gen_ns.py', 'exec'), gns)
    exec(compile(base_src, '_base_ns.py', 'exec'), bns)
    import builtins
    differ = []
    for k in sorted(set(a) & set(b)):
        na, nb = norm(a[k]), norm(b[k])
        if na != nb:
            differ.append(k)
            report.condition(f'ast.{k}', 'ast', 'skipped', detail='ASTs differ -> differential tier')
            continue
        bad = [g for g in free_globals(a[k]) if (g in gns or g in bns) and not g.startswith('__')
               and gns.get(g, getattr(builtins, g, None)) is not bns.get(g, getattr(builtins, g, None))
               and g not in ('ExcelInPython', 'AbstractExcelInPython')]
        if bad:
            differ.append(k)
            report.condition(f'ast.{k}', 'ast', 'skipped', detail=f'same AST but module bindings differ: {bad} -> differential tier')
        else:
            report.condition(f'ast.{k}', 'ast', 'holds', detail='normalised ASTs identical, module-level bindings identical')
    # a helper that calls a differing helper may behave differently as well: close the set under "mentions self.<member>"
    mentions = {k: {n.attr for n in ast.walk(a[k]) if isinstance(n, ast.Attribute) and isinstance(n.value, ast.Name) and n.value.id == 'self'} |
                   {n.attr for n in ast.walk(b[k]) if isinstance(n, ast.Attribute) and isinstance(n.value, ast.Name) and n.value.id == 'self'}
                for k in set(a) & set(b)}
    directly = list(differ)
    changed = True
    while changed:
        changed = False
        for k, ms in mentions.items():
            if k not in differ and ms & set(differ):
                differ.append(k)
                changed = True
    report.sample(dict(members=len(a), ast_identical=len(set(a) & set(b)) - len(directly), ast_differ=directly, callers_of_differing_members=[k for k in differ if k not in directly]))
    # tier 3: differential
    s = Suite('C20', 'diff', PRE, timeout=60 if tier == 'quick' else 240)
    todo = []
    for key, (sig, pre, args) in TABLE.items():
        helper = HELPER_OF.get(key, key)
        if tier == 'thorough' or helper in differ:
            body = SPECIAL.get(key) or f"return both('{helper}', {args})"
            s.add('diff' + key, sig, pre, body, encodes=(f'AbstractExcelInPython.{helper}', f'ExcelInPython.{helper}'))
            todo.append(helper)
    uncovered = [k for k in differ if k not in todo and k not in ('__init__', 'set_arguments', '_cell_preprocessor', 'exec_function_in',
                                                                 'get_titles', 'get_sheets_size', '_today', 'ExcelInPythonException')]
    for k in uncovered:
        report.condition(f'diff.{k}', 'E1', 'inconclusive', detail='ASTs differ and no differential harness exists for this member')
    # stateful differential (always): histories of set_arguments / exec_function_in
    s.add('stateful_history', 'v1: int, v2: int, q1: int, q2: int, w: int', '0 <= q1 < len(CELLS) and 0 <= q2 < len(CELLS) and 0 <= w < 3 and -3 <= v1 <= 3 and -3 <= v2 <= 3', '''
        g, h = KGW(), KBW()
        tgt = ['_0_0_0', '_0_0_1', '_0_1_0'][w]
        r = []
        for inst in (g, h):
            o = [outcome(lambda: inst.exec_function_in(CELLS[q1]))]
            inst.set_arguments([{'uid': tgt, 'value': v1}])
            o.append(outcome(lambda: inst.exec_function_in(CELLS[q2])))
            o.append(outcome(lambda: inst.exec_function_in(CELLS[q1])))
            inst.set_arguments([{'uid': tgt, 'value': v2}, {'uid': '_0_0_2', 'value': v1}])
            o.append(outcome(lambda: inst.exec_function_in(CELLS[q2])))
            r.append(o)
        return all(same(x, y) for x, y in zip(r[0], r[1])) and g.get_titles() == h.get_titles() and g.get_sheets_size() == h.get_sheets_size()
    ''', encodes=('AbstractExcelInPython.set_arguments/_cell_preprocessor/exec_function_in/__init__', 'ExcelInPython.set_arguments/_cell_preprocessor/exec_function_in/__init__'),
          timeout=120 if tier == 'quick' else 400)
    report.bound('tier 2 has no bound (identical AST); tier 3: lists len<=3-4, ASCII texts len<=2-4 (7 for error texts), small integer boxes per helper; stateful: '
                 '2 set_arguments calls, overrides in -3..3, 6 cells; native grids (conditions grid.*): finite argument boxes per helper, run on both copies for helpers whose ASTs differ (thorough: all)')
    report.assume('identical normalised AST + identical module-level bindings => identical behaviour (trusts CPython determinism)',
                  '_today (clock), ExcelInPythonException (empty class) have no differential harness; if their ASTs differ the check reports inconclusive')
    report.extra['programs'] = len(set(a) | set(b))
    s.run(report)
    # native grids: for every helper whose ASTs differ (quick) / every helper with a grid (thorough)
    ns = {'__name__': '_c20_native'}
    exec(compile(PRE, '_c20_pre.py', 'exec'), ns)
    done = set()
    for key in list(TABLE) + ['_left', '_right', '_mid', '_date', '_flatten_list', '_sum_if', '_sumifs', '_countifs', '_parse_date_formats']:
        helper = HELPER_OF.get(key, key)
        if helper in done or not (tier == 'thorough' or helper in differ):
            continue
        done.add(helper)
        run_native_grid(report, helper if key != 'EmptyCell' else 'EmptyCell', helper, ns)
    report.extra['disagreements_checked'] = len(differ)


def replay(rp):
    print(rp)
    return 0
