"""C04 — overrides mean edit-the-cell-and-recalculate; the last write wins.

E1 on the real Executor (set_cells / get_cell, handle_cell, Cell) over the class emitted by the real Parser for one
two-sheet workbook.  Oracle = the *edited workbook*: for every set P of override targets the workbook is re-translated
by the real Parser with placeholder constants at P; the reference value of a query is that class evaluated with the
last-write map passed directly as arguments."""
import itertools

from vlib.e1 import Suite

LEVEL = 'other'
EXPLANATION = ('Bounded symbolic execution (CrossHair/z3) of the real Executor.set_cells/get_cell/handle_cell/Cell over the class the real '
               'Parser emits for a two-sheet workbook (constants, formulas, a formula whose evaluation fails, a blank inside the used range, '
               'a whole-column reference, cross-sheet references). Symbolic: the history of override batches (targets among 7 positions incl. '
               'blank, beyond-used-range and other-sheet cells, int values, numeric or A1-style addressing) and the queried cell. Oracle: the '
               'workbook re-translated by the real Parser with constants at the overridden positions ("edit and recalculate"), evaluated with '
               'the last-write map.')
RULE = ('one condition per (first target, history shape); non-trivial = confirmed over all paths with a refuted vacuity twin, or a replay-confirmed '
        'counterexample')

PRE = r'''
from typing import List, Tuple, Optional, Union
import itertools
from vlib import build
from excel2pycl import Executor, Cell
from crosshair import realize

S = {'A1': 1, 'A2': 2, 'A4': 4, 'B1': '=A1+A2', 'B2': '=SUM(A1:A4)', 'B3': '=1/A1', 'B4': '=B1*2', 'C1': '=SUM(A:A)', 'C2': '=T!A1+A1',
     'C3': '=IF(A3=0,B3,7)', 'C4': '=SUM(A1:A6)', 'D1': '=E1+1'}
T = {'A1': 10, 'B1': '=S!B1+A1'}
TITLES = ['S', 'T']
# override targets: (sheet index, A1 address, kind)
TARGETS = [(0, 'A1', 'constant'), (0, 'B1', 'formula'), (0, 'B3', 'failing formula'), (0, 'A3', 'blank in used range'),
           (0, 'A6', 'below used range'), (0, 'E1', 'right of used range'), (1, 'A1', 'other sheet constant')]
QUERY = [(0, 'A1'), (0, 'A3'), (0, 'B1'), (0, 'B2'), (0, 'B3'), (0, 'B4'), (0, 'C1'), (0, 'C2'), (0, 'C3'), (0, 'C4'), (0, 'D1'),
         (0, 'A6'), (0, 'E1'), (1, 'A1'), (1, 'B1')]

def sheets(edit=()):
    s, t = dict(S), dict(T)
    for ti in edit:
        si, a, _ = TARGETS[ti]
        (s if si == 0 else t)[a] = 0          # placeholder constant: the cell now holds a constant
    return [('S', s), ('T', t)]

TRANSLATE_ERRORS = []
KE = {}
for _n in (0, 1, 2):
    for _P in itertools.combinations(range(len(TARGETS)), _n):
        try:
            KE[_P] = build.load_class(build.translate(sheets(_P)), '_ke' + '_'.join(map(str, _P)))
        except Exception as _e:
            TRANSLATE_ERRORS.append((f'workbook with constants at {[TARGETS[i][1] for i in _P]}', f'{type(_e).__name__}: {_e}'))
K = KE.get(())

def uid(si, a):
    return build.uid(si, a)

def mkcell(si, a, style, value=None):
    from openpyxl.utils.cell import coordinate_from_string, column_index_from_string
    col, row = coordinate_from_string(a)
    if style:
        return Cell(title=TITLES[si], column=col, row=str(row), value=value)
    return Cell(title=si, column=column_index_from_string(col) - 1, row=row - 1, value=value)

def outcome(fn):
    try:
        return ('val', fn())
    except Exception as e:
        return ('exc', type(e).__name__)

def reference(lastmap, qi):
    """edited workbook (constants at the overridden positions) evaluated with the last-write map"""
    P = tuple(sorted(lastmap))
    args = [{'uid': uid(TARGETS[ti][0], TARGETS[ti][1]), 'value': v} for ti, v in lastmap.items()]
    si, a = QUERY[qi]
    return outcome(lambda: KE[P](args).exec_function_in(uid(si, a)))

def same(x, y):
    if x[0] != y[0]:
        return False
    if x[0] == 'exc':
        return x[1] == y[1]
    return x[1] == y[1] and type(x[1]) is type(y[1]) or (x[1] == y[1] and isinstance(x[1], (int, float)) and isinstance(y[1], (int, float)))
'''


def run(report, tier, seed):
    T = 120 if tier == 'quick' else 400
    s = Suite('C04', 'overrides', PRE, timeout=T)
    enc = ('Executor.set_cells', 'Executor._set_cells_to_executed_instance', 'Executor.get_cell', 'Executor.set_executed_class', 'handle_cell',
           'Cell.uid/__hash__/to_dict', 'ExcelInPython.set_arguments', 'ExcelInPython._cell_preprocessor', 'ExcelInPython.exec_function_in')
    nT = 7
    nQ = 'len(QUERY)'
    for t1 in range(nT):
        # one write, any query: override == edit-and-recalculate
        s.add(f'one_write_t{t1}', 'v: int, style: bool, q: int', f'0 <= q < {nQ} and -1 <= v <= 2', f"""
            v = realize(v)
            ex = Executor().set_executed_class(class_object=K)
            ex.set_cells([mkcell(TARGETS[{t1}][0], TARGETS[{t1}][1], style, v)])
            got = outcome(lambda: ex.get_cell(mkcell(QUERY[q][0], QUERY[q][1], False)).value)
            return same(got, reference({{{t1}: v}}, q))
        """, encodes=enc, requires='K is not None')
        # the same cell written twice inside ONE batch and once more later
        s.add(f'same_cell_thrice_t{t1}', 'v1: int, v2: int, v3: int, q: int', f'0 <= q < {nQ} and 0 <= v1 <= 1 and (v2 == 0 or v2 == 2) and v3 == 3', f"""
            v1, v2, v3 = realize(v1), realize(v2), realize(v3)
            ex = Executor().set_executed_class(class_object=K)
            ex.set_cells([mkcell(TARGETS[{t1}][0], TARGETS[{t1}][1], False, v1), mkcell(TARGETS[{t1}][0], TARGETS[{t1}][1], True, v2)])
            got2 = outcome(lambda: ex.get_cell(mkcell(QUERY[q][0], QUERY[q][1], False)).value)
            ex.set_cells([mkcell(TARGETS[{t1}][0], TARGETS[{t1}][1], False, v3)])
            got3 = outcome(lambda: ex.get_cell(mkcell(QUERY[q][0], QUERY[q][1], False)).value)
            return same(got2, reference({{{t1}: v2}}, q)) and same(got3, reference({{{t1}: v3}}, q))
        """, encodes=enc, requires='K is not None', timeout=T * 2)
        # values of other types: text, bool and zero-like values (falsy overrides must be honoured)
        s.add(f'falsy_and_text_overrides_t{t1}', 'which: int, q: int', f'0 <= which < 5 and 0 <= q < {nQ}', f"""
            which = realize(which)
            v = [0, '', False, 'txt', 0.0][which]
            ex = Executor().set_executed_class(class_object=K)
            ex.set_cells([mkcell(TARGETS[{t1}][0], TARGETS[{t1}][1], False, v)])
            got = outcome(lambda: ex.get_cell(mkcell(QUERY[q][0], QUERY[q][1], False)).value)
            return same(got, reference({{{t1}: v}}, q))
        """, encodes=enc, requires='K is not None', timeout=T * 2)
        for t2 in range(nT):
            # two writes in two batches (possibly the same cell): last write wins
            s.add(f'two_batches_t{t1}_t{t2}', 'v1: int, v2: int, q: int', f'0 <= q < {nQ} and 0 <= v1 <= 1 and (v2 == 0 or v2 == 2)', f"""
                v1, v2 = realize(v1), realize(v2)
                ex = Executor().set_executed_class(class_object=K)
                ex.set_cells([mkcell(TARGETS[{t1}][0], TARGETS[{t1}][1], False, v1)])
                ex.set_cells([mkcell(TARGETS[{t2}][0], TARGETS[{t2}][1], True, v2)])
                last = {{{t1}: v1}}
                last[{t2}] = v2
                got = outcome(lambda: ex.get_cell(mkcell(QUERY[q][0], QUERY[q][1], False)).value)
                return same(got, reference(last, q))
            """, encodes=enc, requires='K is not None', timeout=T * 2)
        for t2 in sorted({t1, (t1 + 3) % nT, 2}):
            # a query between the two batches (the first query must not freeze anything)
            s.add(f'write_query_write_t{t1}_t{t2}', 'v1: int, q0: bool, q: int', f'0 <= q < {nQ} and 0 <= v1 <= 1', f"""
                v1 = realize(v1)
                ex = Executor().set_executed_class(class_object=K)
                ex.set_cells([mkcell(TARGETS[{t1}][0], TARGETS[{t1}][1], False, v1)])
                outcome(lambda: ex.get_cell(mkcell(QUERY[3 if q0 else 8][0], QUERY[3 if q0 else 8][1], False)).value)
                ex.set_cells([mkcell(TARGETS[{t2}][0], TARGETS[{t2}][1], False, 5)])
                last = {{{t1}: v1}}
                last[{t2}] = 5
                got = outcome(lambda: ex.get_cell(mkcell(QUERY[q][0], QUERY[q][1], False)).value)
                return same(got, reference(last, q))
            """, encodes=enc, requires='K is not None', timeout=T * 2)
    report.bound('workbook: 2 sheets, 14 cells; 7 override targets (constant, formula, failing formula, blank in range, below / right of used range, '
                 'other sheet); histories: 1 write, 2 batches (second target symbolic), write-query-write, same cell written three times (two in one '
                 'batch); values symbolic ints in small ranges (the engine realises a value when Cell.__hash__ hashes it, so wide ranges only multiply paths) (+ a 5-value family of falsy/text values); queried cell symbolic over 15 cells')
    report.assume('the reference is the workbook re-translated by the real Parser with a placeholder constant at each overridden position and evaluated '
                  'with the last-write map passed directly to the generated class (so set_arguments/_cell_preprocessor for *constant* cells is trusted)',
                  'set iteration order: the engine observes the order of the running interpreter only',
                  'outside the claim: histories longer than 3 writes, override values of other types, concurrency')
    s.run(report)
    s.report_translate_errors(report)


def replay(rp):
    print(rp)
    return 0
