"""C04 — overrides mean edit-the-cell-and-recalculate; the last write wins.

E2 (z3-enumerated bounded exploration, native execution; E1/CrossHair was measured at 0.3-1 s per path here because the
Executor hashes every value, which forces realisation) on the real Executor (set_cells / get_cell, handle_cell, Cell) over the class emitted by the real Parser for one
three-sheet workbook.  Oracle = the *edited workbook*: for every set P of override targets the workbook is re-translated
by the real Parser with placeholder constants at P; the reference value of a query is that class evaluated with the
last-write map passed directly as arguments."""
import itertools

import time

import z3

from vlib import NCPU, e2, findings

LEVEL = 'other'
EXPLANATION = ('Bounded exhaustive exploration, enumerated by z3 (DFS with blocking constraints over the history variables; engine E2) and executed natively, of the real Executor.set_cells/get_cell/handle_cell/Cell over the class the real '
               'Parser emits for a three-sheet workbook (constants, formulas, a formula whose evaluation fails, a blank inside the used range, '
               'a whole-column reference, cross-sheet references). Explored: the history of override batches (targets among 7 positions incl. '
               'blank, beyond-used-range and other-sheet cells, int values, numeric or A1-style addressing) and the queried cell. Oracle: the '
               'workbook re-translated by the real Parser with constants at the overridden positions ("edit and recalculate"), evaluated with '
               'the last-write map.')
RULE = ('one job per (history shape, first target); a case = one complete history + query; distinct_nontrivial counts jobs whose whole sub-space '
        'was closed without truncation')

PRE = r'''
from typing import List, Tuple, Optional, Union
import itertools
from vlib import build
from excel2pycl import Executor, Cell

S = {'A1': 1, 'A2': 2, 'A4': 4, 'B1': '=A1+A2', 'B2': '=SUM(A1:A4)', 'B3': '=1/A1', 'B4': '=B1*2', 'C1': '=SUM(A:A)', 'C2': '=T!A1+A1',
     'C3': '=IF(A3=0,B3,7)', 'C4': '=SUM(A1:A6)', 'D1': '=E1+1', 'D2': '=DAY(TODAY())+A1', 'D3': '=B1', 'D4': '=D3*3', 'B5': '=B1+B3'}
T = {'A1': 10, 'B1': '=S!B1+A1', 'C1': '=S!D3'}
N1 = {'A1': 100, 'B1': '=A1+1'}          # a sheet whose title is all digits and differs from its position
TITLES = ['S', 'T', '1']
# override targets: (sheet index, A1 address, kind)
TARGETS = [(0, 'A1', 'constant'), (0, 'B1', 'formula'), (0, 'B3', 'failing formula'), (0, 'A3', 'blank in used range'),
           (0, 'A6', 'below used range'), (0, 'E1', 'right of used range'), (1, 'A1', 'other sheet constant'), (2, 'A1', 'constant on the digit-titled sheet'),
           (0, 'D3', 'formula that is a bare reference to another cell'), (0, 'G9', 'beyond the used range and referenced by nothing')]
QUERY = [(0, 'A1'), (0, 'A3'), (0, 'B1'), (0, 'B2'), (0, 'B3'), (0, 'B4'), (0, 'C1'), (0, 'C2'), (0, 'C3'), (0, 'C4'), (0, 'D1'),
         (0, 'A6'), (0, 'E1'), (1, 'A1'), (1, 'B1'), (2, 'A1'), (2, 'B1'), (0, 'D2'), (0, 'D3'), (0, 'D4'), (1, 'C1'), (0, 'G9'), (0, 'B5')]

def sheets(edit=()):
    s, t, n1 = dict(S), dict(T), dict(N1)
    for ti in edit:
        si, a, _ = TARGETS[ti]
        (s, t, n1)[si][a] = 0          # placeholder constant: the cell now holds a constant
    return [('S', s), ('T', t), ('1', n1)]

TRANSLATE_ERRORS = []
KE = {}
for _n in (0, 1, 2):
    for _P in itertools.combinations(range(len(TARGETS)), _n):
        try:
            KE[_P] = build.load_class(build.translate(sheets(_P)), '_ke' + '_'.join(map(str, _P)))
        except Exception as _e:
            TRANSLATE_ERRORS.append((f'workbook with constants at {[TARGETS[i][1] for i in _P]}', f'{type(_e).__name__}: {_e}'))
K = KE.get(())

def uid(si, a):
    return build.uid(si, a)

def mkcell(si, a, style, value=None):
    from openpyxl.utils.cell import coordinate_from_string, column_index_from_string
    col, row = coordinate_from_string(a)
    if style:
        return Cell(title=TITLES[si], column=col, row=str(row), value=value)
    return Cell(title=si, column=column_index_from_string(col) - 1, row=row - 1, value=value)

def outcome(fn):
    try:
        return ('val', fn())
    except Exception as e:
        return ('exc', type(e).__name__)

def reference(lastmap, qi):
    """edited workbook (constants at the overridden positions) evaluated with the last-write map"""
    P = tuple(sorted(lastmap))
    args = [{'uid': uid(TARGETS[ti][0], TARGETS[ti][1]), 'value': v} for ti, v in lastmap.items()]
    si, a = QUERY[qi]
    return outcome(lambda: KE[P](args).exec_function_in(uid(si, a)))

FAM = [0, 1, 2, True, False, '', 'txt', 0.0, 0.30000000000000004, 0.3]       # override values: ints, equal-valued values of other types, falsy values, text, two neighbouring doubles

def history2(t1, v1, t2, v2, style, onebatch, q0, q):
    """two writes (possibly to the same cell), optionally in one batch, optionally a query in between; then one query"""
    ex = Executor().set_executed_class(class_object=K)
    c1 = mkcell(TARGETS[t1][0], TARGETS[t1][1], bool(style), FAM[v1])
    c2 = mkcell(TARGETS[t2][0], TARGETS[t2][1], not style, FAM[v2])
    if onebatch:
        ex.set_cells([c1, c2])
    else:
        ex.set_cells([c1])
        if q0:
            outcome(lambda: ex.get_cell(mkcell(QUERY[8][0], QUERY[8][1], False)).value)
        ex.set_cells([c2])
    last = {t1: FAM[v1]}
    last[t2] = FAM[v2]
    got = outcome(lambda: ex.get_cell(mkcell(QUERY[q][0], QUERY[q][1], bool(style))).value)
    ref = reference(last, q)
    if not same(got, ref):
        return f'executor gives {got}, the edited workbook gives {ref}'
    # the overridden cell itself reads back as exactly the value written last (same value, same type)
    back = outcome(lambda: ex.get_cell(mkcell(TARGETS[t2][0], TARGETS[t2][1], False)).value)
    if back[0] != 'val' or type(back[1]) is not type(FAM[v2]) or back[1] != FAM[v2]:
        return f'the overridden cell reads back as {back}, written {FAM[v2]!r} ({type(FAM[v2]).__name__})'
    return None

def history3(t1, v1, v2, v3, q):
    """the same cell written twice inside one batch and once more later"""
    ex = Executor().set_executed_class(class_object=K)
    ex.set_cells([mkcell(TARGETS[t1][0], TARGETS[t1][1], False, FAM[v1]), mkcell(TARGETS[t1][0], TARGETS[t1][1], True, FAM[v2])])
    got2 = outcome(lambda: ex.get_cell(mkcell(QUERY[q][0], QUERY[q][1], False)).value)
    ex.set_cells([mkcell(TARGETS[t1][0], TARGETS[t1][1], False, FAM[v3])])
    got3 = outcome(lambda: ex.get_cell(mkcell(QUERY[q][0], QUERY[q][1], False)).value)
    r2, r3 = reference({t1: FAM[v2]}, q), reference({t1: FAM[v3]}, q)
    if not same(got2, r2):
        return f'after the batch: executor gives {got2}, the edited workbook gives {r2}'
    return None if same(got3, r3) else f'after the third write: executor gives {got3}, the edited workbook gives {r3}'

def same(x, y):
    if x[0] != y[0]:
        return False
    if x[0] == 'exc':
        return x[1] == y[1]
    return x[1] == y[1] and type(x[1]) is type(y[1]) or (x[1] == y[1] and isinstance(x[1], (int, float)) and isinstance(y[1], (int, float)))
'''


NS = {}
H2 = ['v1', 't2', 'v2', 'style', 'onebatch', 'q0', 'q']
H3 = ['v1', 'v2', 'v3', 'q']


def _known(kfs):
    def is_known(out):
        for i, e in enumerate(kfs):
            try:
                if eval(e['region'], {}, dict(out['vars'])):
                    return f'kf{i}'
            except Exception:
                pass
        return None
    return is_known


def _job2(t1, kfs, timeout, quick=False):
    fn, nT, nQ, nF = NS['history2'], len(NS['TARGETS']), len(NS['QUERY']), len(NS['FAM'])

    def run(ex):
        v1, t2, v2, style, onebatch, q0, q = z3.Ints(' '.join(H2))
        ex.assume(z3.And(v1 >= 0, v1 <= 1, t2 >= 0, t2 < nT, v2 >= 0, v2 < nF, style >= 0, style <= 1, onebatch >= 0, onebatch <= 1,
                         q0 >= 0, q0 <= 1, z3.Implies(onebatch == 1, q0 == 0), q >= 0, q < nQ))
        if quick:
            ex.assume(style == (t2 + v2 + q) % 2)      # quick tier: the addressing style is spread over the histories instead of multiplied in
        vals = [ex.concretize(x) for x in (v1, t2, v2, style, onebatch, q0, q)]
        try:
            out = fn(t1, vals[0], vals[1], vals[2], vals[3], vals[4], vals[5], vals[6])
        except Exception as e:
            out = f'harness exception {type(e).__name__}: {e}'
        return None if out is None else dict(vars=dict(zip(['t1'] + H2, [t1] + vals)), why=out)
    return e2.explore(run, timeout=timeout, is_known=_known(kfs))


def _job3(t1, kfs, timeout, quick=False):
    fn, nQ, nF = NS['history3'], len(NS['QUERY']), len(NS['FAM'])

    def run(ex):
        v1, v2, v3, q = z3.Ints(' '.join(H3))
        ex.assume(z3.And(v1 >= 0, v1 < nF, v2 >= 0, v2 < nF, v3 >= 0, v3 < nF, q >= 0, q < nQ))
        if quick:
            ex.assume(v1 < 4)        # quick tier: the first (overwritten) value from the first four of the family
        vals = [ex.concretize(x) for x in (v1, v2, v3, q)]
        try:
            out = fn(t1, *vals)
        except Exception as e:
            out = f'harness exception {type(e).__name__}: {e}'
        return None if out is None else dict(vars=dict(zip(['t1'] + H3, [t1] + vals)), why=out)
    return e2.explore(run, timeout=timeout, is_known=_known(kfs))


def run(report, tier, seed):
    exec(compile(PRE, '<c04-pre>', 'exec'), NS)
    for f, err in NS['TRANSLATE_ERRORS']:
        report.condition('translate:' + f, 'concrete', 'violated', detail=err)
        report.violation('translate', f, err)
    if NS.get('K') is None:
        return
    to = 300 if tier == 'quick' else 1500
    jobs = []
    kf_of = {}
    for t1 in range(len(NS['TARGETS'])):
        for shape, fn in (('history2', _job2), ('history3', _job3)):
            name = f'{shape}_t{t1}'
            kf_of[name] = findings.for_harness('C04', name)
            jobs.append((name, fn, (t1, kf_of[name], to, tier == 'quick')))
    res = e2.run_jobs(jobs, NCPU, deadline=to * 2 + 60)
    total = 0
    for name, r in res.items():
        cname = 'overrides.' + name
        if 'error' in r:
            report.condition(cname, 'E2', 'inconclusive', detail=r['error'])
            continue
        total += r['paths']
        report.queries += r['queries']
        for label, (cnt, first) in r.get('known', {}).items():
            e = kf_of[name][int(label[2:])]
            report.condition(cname + '#' + label, 'E2', 'known', 0, cnt, e.get('what', ''))
            report.known_finding(f'harness={cname} histories_in_region={cnt} first={first["vars"]} :: {e.get("what", "")}', key=e.get('what'))
        if r['failures']:
            f, model = r['failures'][0]
            v = f['vars']
            again = (NS['history2'](*[v[k] for k in ['t1'] + H2]) if name.startswith('history2') else NS['history3'](*[v[k] for k in ['t1'] + H3]))
            if again is not None:
                report.condition(cname, 'E2', 'violated', r['secs'], r['paths'], f['why'])
                report.violation(cname, f'{name.split("_")[0]}({v})', again)
            else:
                report.condition(cname, 'E2', 'spurious', r['secs'], r['paths'], f['why'])
        elif r['complete']:
            report.condition(cname, 'E2', 'holds', r['secs'], r['paths'], 'all histories of the sub-space closed')
            report.sample(dict(job=cname, histories=r['paths'], z3_queries=r['queries'], solver_s=r['solver_s'], secs=r['secs']))
        else:
            report.condition(cname, 'E2', 'inconclusive', r['secs'], r['paths'], 'time budget hit before the sub-space was closed')
    report.extra['histories_explored'] = total
    report.encoded('Executor.set_cells', 'Executor._set_cells_to_executed_instance', 'Executor.get_cell', 'Executor.set_executed_class', 'handle_cell',
                   'Cell.uid/__hash__/to_dict', 'ExcelInPython.set_arguments', 'ExcelInPython._cell_preprocessor', 'ExcelInPython.exec_function_in')
    report.bound('workbook: 3 sheets (one titled "1" at index 2), 17 cells; 8 override targets (constant, formula, failing formula, blank in range, below / '
                 'right of used range, other sheet, digit-titled sheet); history2: two writes (second target any of 10, values from a 10-value family incl. two neighbouring doubles and '
                 '1/True/0/False/""/0.0/text, numeric and A1+title addressing, same batch or two batches, optional query in between) then a query of any '
                 'of 23 cells; history3: one cell written twice in one batch and once more, all value triples. All enumerated.')
    report.assume('the reference is the workbook re-translated by the real Parser with a placeholder constant at each overridden position and evaluated '
                  'with the last-write map passed directly to the generated class (so set_arguments/_cell_preprocessor for *constant* cells is trusted)',
                  'the solver enumerates the finite history space (every value is hashed by the code under test, so nothing can stay symbolic); each '
                  'history runs natively on the real code; set iteration order: only the order of the running interpreter is observed',
                  'outside the claim: histories longer than 3 writes, override values outside the family, concurrency')


def replay(rp):
    print(rp)
    return 0
