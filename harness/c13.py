"""C13 — IF / IFS / IFERROR choose the right branch and contain errors.

E1 through the code the real Parser emits for nests of IF (2/3 arguments), IFS and IFERROR, alone and inside larger
expressions; condition cells and value cells are symbolic; the oracle is a lazy reference evaluator written per formula."""
from vlib.e1 import Suite

LEVEL = 'other'
EXPLANATION = ('Bounded symbolic execution (CrossHair/z3) of the classes the real Parser emits for IF (2- and 3-argument), IFS and IFERROR formulas, '
               'nested and in operand/argument positions (+ * & % SUM ROUND); condition cells are symbolic Union[int, bool, None], value cells symbolic '
               'ints or one of the seven Excel error texts chosen by a symbolic index; a branch that must not be evaluated contains an expression that '
               'raises when evaluated. Oracle: lazy reference evaluation.')
RULE = ('one condition per formula shape; non-trivial = confirmed over all paths with a refuted vacuity twin, or a replay-confirmed counterexample')

PRE = r'''
from typing import List, Tuple, Optional, Union
from vlib import build

C = Union[int, bool, None]
ERRS = ['#NULL!', '#DIV/0!', '#VALUE!', '#REF!', '#NAME?', '#NUM!', '#N/A']
# G1 holds an int: LEFT(G1,2) raises TypeError when (and only when) it is evaluated
FORMULAS = {
    'F1': '=IF(A1,D1,E1)', 'F2': '=IF(A1,D1)', 'F3': '=IF(A1>B1,D1,E1)', 'F4': '=IF(A1,IF(B1,D1,E1),F1)', 'F5': '=1+IF(A1,D1,E1)*2',
    'F6': '=IF(A1,D1,E1)&"x"', 'F7': '=SUM(IF(A1,D1,E1),5)', 'F8': '=IF(A1,D1,LEFT(G1,2))', 'F9': '=IF(A1,LEFT(G1,2),E1)',
    'F10': '=IFERROR(LEFT(G1,2),-1)', 'F11': '=IFERROR(D1,-1)', 'F12': '=IFERROR(IFERROR(D1,E1),-2)', 'F13': '=IFERROR(D1,-1)+1',
    'F14': '=IFS(A1,D1,B1,E1,C1,F1)', 'F15': '=IFS(A1>0,D1,A1<0,E1)', 'F16': '=IF(A1,D1,E1)%', 'F17': '=IFERROR(C2,"fb")',
    'F18': '=IF(A1,D1,E1)%*B1', 'F19': '=ROUND(IF(A1,D1,E1),0)', 'F20': '=IF(IF(A1,B1,C1),D1,E1)', 'F21': '=IFERROR(IF(A1,LEFT(G1,2),D1),E1)',
    'F22': '=IF(A1,D1,E1)+IF(B1,E1,F1)', 'F23': '=IFERROR(IF(A1,D1,E1)*2,-1)', 'F24': '=IF(A1,IFERROR(D1,E1),F1)', 'F25': '=IFS(A1,D1)',
    'F26': '=2*IF(A1,D1,E1)', 'F27': '=IF(A1=B1,D1,E1)', 'F28': '=IF(A1,D1,IF(B1,E1,F1)+C1)', 'F29': '=IF(A1,D1,IF(B1,E1,F1)&"x")', 'F30': '=IF(A1,IF(B1,E1,F1)*2,D1)',
}
CONSTS = {'A1': 1, 'B1': 0, 'C1': 1, 'D1': 10, 'E1': 20, 'F1': 30, 'G1': 5}
K = {}
TRANSLATE_ERRORS = []
for _c, _f in FORMULAS.items():
    try:
        K[_c] = build.load_class(build.translate([('S', dict(CONSTS, **{('H' + _c[1:]): _f}))]), '_k' + _c)
    except Exception as _e:
        TRANSLATE_ERRORS.append((_f, f'{type(_e).__name__}: {_e}'))

def ev(cell, **ov):
    k = K[cell]
    args = [{'uid': build.uid(0, a), 'value': k.EmptyCell() if v is None else v} for a, v in ov.items()]
    return k(args).exec_function_in(build.uid(0, 'H' + cell[1:]))

def outcome(fn):
    try:
        return ('val', fn())
    except Exception as e:
        return ('exc', type(e).__name__)

def val(i, x):
    """value cell content: the int x, or (1 <= i <= 7) the i-th Excel error text"""
    return ERRS[i - 1] if i else x
'''


def run(report, tier, seed):
    T = 90 if tier == 'quick' else 300
    s = Suite('C13', 'cond', PRE, timeout=T)
    enc = ('IfControlConstructionTokenTranslator.translate', 'IfsControlConstructionTokenTranslator.translate', 'IfErrorControlConstructionTokenTranslator.translate',
           'ExpressionTokenTranslator.translate', 'ExcelInPython._iferror', 'ExcelInPython._ifs', 'ExcelInPython._find_error_in_list')

    def add(name, cell, sig, pre, body, **kw):
        cells = sorted(set(__import__('re').findall(r"ev\('(F\d+)'", body)))
        s.add(name, sig, pre, body, encodes=enc, requires=' and '.join(f"'{c}' in K" for c in cells), **kw)
    add('if3', 'F1', 'a: C, d: int, e: int', 'True', "return ev('F1', A1=a, D1=d, E1=e) == (d if a else e)")
    add('if2_default_false', 'F2', 'a: C, d: int', 'True', '''
        got = ev('F2', A1=a, D1=d)
        return got == d if a else (got is False)
    ''')
    add('if_fractional_condition', 'F1', 'i: int, d: int, e: int', '0 <= i < 8', '''
        from crosshair import realize
        x = [0.5, -0.25, 0.0, 1.5, -0.0, 1e-9, 0.999, -3.75][realize(i)]
        return ev('F1', A1=x, D1=d, E1=e) == (d if x != 0 else e) and ev('F2', A1=x, D1=d) == (d if x != 0 else False) and ev('F4', A1=x, B1=x, D1=d, E1=e, F1=7) == ((d if x != 0 else e) if x != 0 else 7)
    ''')
    add('if_comparison_condition', 'F3', 'a: int, b: int, d: int, e: int', 'True', "return ev('F3', A1=a, B1=b, D1=d, E1=e) == (d if a > b else e)")
    add('if_eq_condition', 'F27', 'a: int, b: int, d: int, e: int', 'True', "return ev('F27', A1=a, B1=b, D1=d, E1=e) == (d if a == b else e)")
    add('if_nested_branch', 'F4', 'a: C, b: C, d: int, e: int, f: int', 'True', "return ev('F4', A1=a, B1=b, D1=d, E1=e, F1=f) == ((d if b else e) if a else f)")
    add('if_nested_condition', 'F20', 'a: C, b: C, c: C, d: int, e: int', 'True',
        "return ev('F20', A1=a, B1=b, C1=c, D1=d, E1=e) == (d if (b if a else c) else e)")
    add('if_else_branch_if_plus', 'F28', 'a: C, b: C, c: int, d: int, e: int, f: int', 'True',
        "return ev('F28', A1=a, B1=b, C1=c, D1=d, E1=e, F1=f) == (d if a else (e if b else f) + c)")
    add('if_else_branch_if_concat', 'F29', 'a: C, b: C, e: int, f: int', '-99 <= e <= 99 and -99 <= f <= 99',
        "return ev('F29', A1=a, B1=b, D1='q', E1=e, F1=f) == ('q' if a else str(e if b else f) + 'x')")
    add('if_then_branch_if_times', 'F30', 'a: C, b: C, d: int, e: int, f: int', 'True',
        "return ev('F30', A1=a, B1=b, D1=d, E1=e, F1=f) == ((e if b else f) * 2 if a else d)")
    add('if_inside_arithmetic', 'F5', 'a: C, d: int, e: int', 'True', "return ev('F5', A1=a, D1=d, E1=e) == 1 + (d if a else e) * 2")
    add('if_right_operand', 'F26', 'a: C, d: int, e: int', 'True', "return ev('F26', A1=a, D1=d, E1=e) == 2 * (d if a else e)")
    add('if_two_in_sum', 'F22', 'a: C, b: C, d: int, e: int, f: int', 'True', "return ev('F22', A1=a, B1=b, D1=d, E1=e, F1=f) == (d if a else e) + (e if b else f)")
    add('if_inside_concat', 'F6', 'a: C, d: int, e: int', '-99 <= d <= 99 and -99 <= e <= 99', "return ev('F6', A1=a, D1=d, E1=e) == str(d if a else e) + 'x'")
    add('if_inside_sum', 'F7', 'a: C, d: int, e: int', 'True', "return ev('F7', A1=a, D1=d, E1=e) == (d if a else e) + 5")
    add('if_inside_round', 'F19', 'a: C, d: int, e: int', 'True', "return ev('F19', A1=a, D1=d, E1=e) == (d if a else e)")
    add('if_percent', 'F16', 'a: C, d: int, e: int', '0 <= d <= 3 and 4 <= e <= 6', '''
        from crosshair import realize
        d, e = realize(d), realize(e)
        return abs(ev('F16', A1=a, D1=d, E1=e) - (d if a else e) / 100) < 1e-12
    ''')
    add('if_percent_times', 'F18', 'a: C, b: int, d: int, e: int', '0 <= d <= 2 and 3 <= e <= 4 and 2 <= b <= 3', '''
        from crosshair import realize
        d, e, b = realize(d), realize(e), realize(b)
        return abs(ev('F18', A1=a, B1=b, D1=d, E1=e) - (d if a else e) / 100 * b) < 1e-12
    ''')
    # only the chosen branch is evaluated: the other one raises when evaluated
    add('if_lazy_false_branch', 'F8', 'a: C, d: int', 'True', '''
        o = outcome(lambda: ev('F8', A1=a, D1=d))
        return o == ('val', d) if a else o[0] == 'exc'
    ''')
    add('if_lazy_true_branch', 'F9', 'a: C, e: int', 'True', '''
        o = outcome(lambda: ev('F9', A1=a, E1=e))
        return o[0] == 'exc' if a else o == ('val', e)
    ''')
    # IFERROR
    add('iferror_failing_evaluation', 'F10', 'g: int', 'g != 0', "return ev('F10', G1=g) == -1")
    add('iferror_error_values', 'F11', 'i: int, x: int', '0 <= i <= 7', "return ev('F11', D1=val(i, x)) == (-1 if i else x)")
    add('iferror_text_not_error', 'F11', 't: str', "len(t) <= 2 and all(c in '#a!N/A' for c in t)", "return ev('F11', D1=t) == t")
    add('iferror_nested', 'F12', 'i: int, x: int, j: int, y: int', '0 <= i <= 7 and 0 <= j <= 7',
        "return ev('F12', D1=val(i, x), E1=val(j, y)) == ((-2 if j else y) if i else x)")
    add('iferror_inside_arithmetic', 'F13', 'i: int, x: int', '0 <= i <= 7', "return ev('F13', D1=val(i, x)) == (-1 if i else x) + 1")
    add('iferror_blank_is_not_error', 'F17', 'x: int', 'True', '''
        got = ev('F17', A1=x)
        return got != 'fb' and got == 0
    ''')
    add('iferror_around_if', 'F21', 'a: C, d: int, e: int', 'True', "return ev('F21', A1=a, D1=d, E1=e) == (e if a else d)")
    add('iferror_around_arithmetic', 'F23', 'a: C, i: int, x: int, e: int', '0 <= i <= 7', '''
        # an error text times 2 is text repetition in Python (not an error): only non-error operands are compared
        return True if (i and a) else ev('F23', A1=a, D1=val(i, x), E1=e) == (x if a else e) * 2
    ''')
    add('if_around_iferror', 'F24', 'a: C, i: int, x: int, e: int, f: int', '0 <= i <= 7', "return ev('F24', A1=a, D1=val(i, x), E1=e, F1=f) == ((e if i else x) if a else f)")
    # IFS
    add('ifs_first_true', 'F14', 'a: C, b: C, c: C, d: int, e: int, f: int', 'True', '''
        exp = d if a else (e if b else (f if c else '#N/A'))
        return ev('F14', A1=a, B1=b, C1=c, D1=d, E1=e, F1=f) == exp
    ''')
    add('ifs_numeric_conditions', 'F14', 'a: int, b: int, c: int, d: int, e: int, f: int', 'True', '''
        exp = d if a != 0 else (e if b != 0 else (f if c != 0 else '#N/A'))
        return ev('F14', A1=a, B1=b, C1=c, D1=d, E1=e, F1=f) == exp
    ''')
    add('ifs_comparisons', 'F15', 'a: int, d: int, e: int', 'True', "return ev('F15', A1=a, D1=d, E1=e) == (d if a > 0 else (e if a < 0 else '#N/A'))")
    add('ifs_single_pair', 'F25', 'a: C, d: int', 'True', "return ev('F25', A1=a, D1=d) == (d if a else '#N/A')")
    add('ifs_untaken_pair_holds_error', 'F14', 'a: C, b: C, i: int, j: int', '0 <= i <= 7 and 0 <= j <= 7', '''
        d, e, f = 1, val(i, 2), val(j, 3)
        exp = d if a else (e if b else f)
        return ev('F14', A1=a, B1=b, C1=1, D1=d, E1=e, F1=f) == exp
    ''')
    report.bound('conditions: Union[int, bool, None]; values: unbounded ints or one of the seven Excel error texts (symbolic index); nests of depth <= 2; '
                 'positions: alone, left/right operand of + * &, postfix %, argument of SUM/ROUND, inside IFERROR')
    report.assume('outside the claim: deeper nests, array-valued branches, text conditions, arithmetic on error texts (Python repeats the string)',
                  'bare `except:` of the loaded runtime copy narrowed to `except Exception`')
    s.run(report)
    s.report_translate_errors(report)


def replay(rp):
    print(rp)
    return 0
