"""C17 — text functions obey the substring algebra.

E1 on the real `_left/_right/_mid/_search/_value/_excel_value_to_string` helpers of the regenerated runtime class and on
classes emitted by the real Parser for LEFT/RIGHT/MID/&/CONCATENATE/SEARCH/VALUE formulas."""
import itertools
import random

from vlib.e1 import Suite

LEVEL = 'other'
EXPLANATION = ('Bounded symbolic execution (CrossHair/z3) of the real text helpers (_left, _right, _mid, _search, _value, '
               '_excel_value_to_string) of the regenerated runtime class and of classes emitted by the real Parser; the text, the '
               'integer positions/counts, the SEARCH needle (plain path) and haystack are symbolic over a small mixed-case alphabet; '
               'wildcard patterns are an enumerated concrete family (the runtime compiles the pattern), the searched text symbolic. '
               'Oracle: Python slices, casefolded find, and an independent backtracking wildcard matcher.')
RULE = ('one condition per (function, clause) and per wildcard pattern of the enumerated family; non-trivial = confirmed over all '
        'paths with a refuted vacuity twin, or a replay-confirmed counterexample')

PRE = r'''
from typing import List, Tuple, Optional, Union
from vlib import build
K0 = build.load_class(build.runtime_source(), '_rt')
RT = K0()
E = K0.EmptyCell

def _install_plugins():
    from vlib import plugins
    plugins.install_ascii_case()

def iserr(v):
    return isinstance(v, str) and v[:1] == '#'

def ref_plain_search(f, t, s):
    """1-based position of the first case-insensitive occurrence of f in t at or after s, else None"""
    if s < 1 or s > len(t):
        return None
    fl, tl = f.lower(), t.lower()
    i = s - 1
    while i + len(fl) <= len(tl):
        if tl[i:i + len(fl)] == fl:
            return i + 1
        i += 1
    return None

def wm(p, i, t, j):
    """does pattern p[i:] match a prefix of t[j:] (wildcards ? * ~, case-insensitive)"""
    if i == len(p):
        return True
    c = p[i]
    if c == '~' and i + 1 < len(p) and p[i + 1] in '?*~':
        return j < len(t) and t[j].lower() == p[i + 1].lower() and wm(p, i + 2, t, j + 1)
    if c == '*':
        k = j
        while k <= len(t):
            if wm(p, i + 1, t, k):
                return True
            k += 1
        return False
    if c == '?':
        return j < len(t) and wm(p, i + 1, t, j + 1)
    return j < len(t) and t[j].lower() == c.lower() and wm(p, i + 1, t, j + 1)

def ref_wild_search(p, t, s):
    if s < 1 or s > len(t):
        return None
    j = s - 1
    while j <= len(t):
        if wm(p, 0, t, j):
            return j + 1
        j += 1
    return None

FORMULAS = {
    'F1': '=LEFT(A1,B1)', 'F2': '=RIGHT(A1,B1)', 'F3': '=MID(A1,B1,C1)', 'F4': '=LEFT(A1,B1)&MID(A1,B1+1,C1)',
    'F5': '=A1&A2', 'F6': '=A1&A2&A3', 'F7': '=CONCATENATE(A1,A2,A3)', 'F8': '=A1&B1', 'F9': '=CONCATENATE(B1,A1,C1)',
    'F10': '=SEARCH(A2,A1)', 'F11': '=SEARCH(A2,A1,B1)', 'F12': '=SEARCH("a?b",A1)', 'F13': '=VALUE(A1)',
    'F14': '=LEFT(A1)', 'F15': '=RIGHT(A1)', 'F16': '=SEARCH("b*a",A1,B1)', 'F17': '=LEFT(MID(A1,B1,2),C1)', 'F18': '=RIGHT(LEFT(A1,B1))&MID(RIGHT(A1,B1),C1,1)',
    'F19': '=CONCATENATE(B1)', 'F20': '=CONCATENATE(A1)&"!"', 'F21': '=CONCATENATE(B1+1)&A1',
}
CONSTS = {'A1': 'abc', 'A2': 'b', 'A3': 'x', 'B1': 1, 'C1': 1}
K = {}
TRANSLATE_ERRORS = []
for _c, _f in FORMULAS.items():
    try:
        K[_c] = build.load_class(build.translate_formulas({_c: _f}, CONSTS), '_k' + _c)
    except Exception as _e:
        TRANSLATE_ERRORS.append((_f, f'{type(_e).__name__}: {_e}'))

def ev(cell, **ov):
    args = [{'uid': build.uid(0, a), 'value': v} for a, v in ov.items()]
    return K[cell](args).exec_function_in(build.uid(0, cell))
'''

ALPHA = 'abAB.'


def patterns(tier, seed):
    """concrete wildcard patterns of length <= 3 over {a, b, ?, *, ~} that contain an effective wildcard"""
    out = []
    for n in (1, 2, 3):
        for tup in itertools.product('ab?*~', repeat=n):
            p = ''.join(tup)
            if ('?' in p or '*' in p) and p not in ('?~*', '~?*', '~*?'):   # CrossHair's regex model rejects the regexes these three compile to
                out.append(p)
    if tier == 'quick':
        rnd = random.Random(seed)
        keep = ['?', '*', 'a?', '?a', 'a*', '*a', 'a?b', 'a*b', '~?', '~*', 'a~?', '~*a', '??', '**', '?*', '*?', 'b*a', '*~*']
        rest = [p for p in out if p not in keep]
        rnd.shuffle(rest)
        return keep + rest[:14]
    return out


def run(report, tier, seed):
    T = 60 if tier == 'quick' else 240
    n = 4 if tier == 'quick' else 5
    s = Suite('C17', 'text', PRE, timeout=T)
    enc = ('ExcelInPython._left', 'ExcelInPython._right', 'ExcelInPython._mid')
    tpre = f"len(t) <= {n} and all(c in '{ALPHA}' for c in t)"
    box = f'-2 <= n <= {n + 2}'
    s.add('left_slice', 't: str, n: int', f'{tpre} and {box}', '''
        got = RT._left(t, n)
        return iserr(got) if n < 0 else got == t[:n]
    ''', encodes=enc)
    s.add('right_slice', 't: str, n: int', f'{tpre} and {box}', '''
        got = RT._right(t, n)
        return iserr(got) if n < 0 else got == (t[len(t) - n:] if n <= len(t) else t)
    ''', encodes=enc)
    s.add('mid_slice', 't: str, k: int, n: int', f'{tpre} and -2 <= k <= {n + 2} and {box}', '''
        got = RT._mid(t, k, n)
        if k < 1 or n < 0:
            return iserr(got)
        return got == t[k - 1:k - 1 + n]
    ''', encodes=enc)
    s.add('left_mid_rebuild', 't: str, n: int', f'1 <= len(t) <= {n} and all(c in "{ALPHA}" for c in t) and 0 <= n < len(t)', '''
        return str(RT._left(t, n)) + str(RT._mid(t, n + 1, len(t))) == t
    ''', encodes=enc)
    s.add('left_right_default_one', 't: str', f'len(t) <= {n} and all(c in "{ALPHA}" for c in t)', '''
        return RT._left(t, None) == t[:1] and RT._right(t, None) == t[-1:]
    ''', encodes=enc)
    # the empty text delivered as a blank (never-written cell, or the blank result of an inner slice whose window lies outside its text)
    s.add('slices_of_blank', 'k: int, n: int', f'-2 <= k <= {n + 2} and {box}', '''
        b = RT.EmptyCell()
        l, r, m = RT._left(b, n), RT._right(b, n), RT._mid(b, k, n)
        return (iserr(l) if n < 0 else l == '') and (iserr(r) if n < 0 else r == '') and (iserr(m) if (k < 1 or n < 0) else m == '') and RT._left(b, None) == '' and RT._right(b, None) == ''
    ''', encodes=enc)
    # SEARCH plain path: needle and haystack symbolic
    senc = ('ExcelInPython._search',)
    s.add('search_plain', 'f: str, t: str, st: int',
          f"1 <= len(f) <= 2 and len(t) <= 2 and all(c in 'aAb' for c in f + t) and 0 <= st <= 2", '''
        got = RT._search(f, t, st if st else None)
        exp = ref_plain_search(f, t, st if st else 1)
        return got == (exp if exp is not None else '#VALUE!')
    ''', encodes=senc, timeout=T * 2)
    s.add('search_plain_escaped_wildcards', 't: str, st: int',
          f"len(t) <= {n - 1} and all(c in 'a?*' for c in t) and 1 <= st <= {n}", '''
        ok = True
        for f, lit in (('~?', '?'), ('a~*', 'a*')):
            got = RT._search(f, t, st)
            exp = ref_plain_search(lit, t, st)
            ok = ok and got == (exp if exp is not None else '#VALUE!')
        return ok
    ''', encodes=senc, timeout=T * 2)
    # SEARCH wildcard path: pattern concrete (the runtime compiles it), text symbolic
    for p in patterns(tier, seed):
        hx = p.encode().hex()
        s.add(f'search_wild_{hx}', 't: str, st: int', f"len(t) <= 3 and all(c in 'aA*' for c in t) and 1 <= st <= 2", f'''
            got = RT._search({p!r}, t, st)
            exp = ref_wild_search({p!r}, t, st)
            return got == (exp if exp is not None else '#VALUE!')
        ''', encodes=senc, note=f'pattern {p!r}')
    # VALUE
    s.add('value_int_text', 'd: str', "1 <= len(d) <= 2 and all(c in '0123456789' for c in d)", '''
        return RT._value(d) == int(d) and RT._value('-' + d) == -int(d) and RT._value(' ' + d + ' ') == int(d)
    ''', encodes=('ExcelInPython._value',))
    s.add('value_int_roundtrip', 'i: int', "-99 <= i <= 99", '''
        return RT._value(str(i)) == i
    ''', encodes=('ExcelInPython._value',))
    s.add('value_decimal_text', 'a: int, b: int', "0 <= a <= 9 and 0 <= b <= 9", '''
        return RT._value(str(a) + '.' + str(b)) == a + b / 10 and RT._value(str(a) + ',' + str(b)) == a + b / 10
    ''', encodes=('ExcelInPython._value',))
    # concatenation
    cenc = ('ExcelInPython._excel_value_to_string', 'ExpressionTokenTranslator.translate (& branch)',
            'ConcatenateControlConstructionTokenTranslator.translate')
    t3 = "len(a) <= 2 and len(b) <= 2 and len(c) <= 2 and all(ch in 'abAB.' for ch in a + b + c)"
    s.add('f_amp2', 'a: str, b: str, c: str', t3, "return ev('F5', A1=a, A2=b) == a + b", encodes=cenc, requires="'F5' in K")
    s.add('f_amp3', 'a: str, b: str, c: str', t3, "return ev('F6', A1=a, A2=b, A3=c) == a + b + c", encodes=cenc, requires="'F6' in K")
    s.add('f_concatenate3', 'a: str, b: str, c: str', t3, "return ev('F7', A1=a, A2=b, A3=c) == a + b + c", encodes=cenc, requires="'F7' in K")
    s.add('f_amp_blank', 'a: str, b: str, c: str', t3, '''
        e = RT.EmptyCell()
        return ev('F5', A1=e, A2=b) == b and ev('F5', A1=a, A2=e) == a and ev('F7', A1=a, A2=e, A3=c) == a + c and ev('F6', A1=e, A2=e, A3=c) == c
    ''', encodes=cenc, requires="'F5' in K and 'F6' in K and 'F7' in K")
    s.add('f_amp_textcells_overridden_with_numbers', 'i: int, j: int', "-99 <= i <= 99 and -99 <= j <= 99",
          "return ev('F5', A1=i, A2=j) == str(i) + str(j) and ev('F7', A1=i, A2='b', A3=j) == str(i) + 'b' + str(j)",
          encodes=cenc, requires="'F5' in K and 'F7' in K", timeout=T * 2, note='A1..A3 hold texts in the workbook; the emitted code must not depend on that')
    s.add('f_concatenate_single_operand', 'a: str, i: int', "len(a) <= 2 and all(ch in 'abAB.' for ch in a) and -1000 <= i <= 1000",
          "return ev('F19', B1=i) == str(i) and ev('F20', A1=a) == a + '!' and ev('F21', A1=a, B1=i) == str(i + 1) + a and ev('F20', A1=i) == str(i) + '!'",
          encodes=cenc, requires="'F19' in K and 'F20' in K and 'F21' in K")
    s.add('f_amp_text_int', 'a: str, i: int', "len(a) <= 2 and all(ch in 'abAB.' for ch in a) and -1000 <= i <= 1000",
          "return ev('F8', A1=a, B1=i) == a + str(i)", encodes=cenc, requires="'F8' in K")
    s.add('f_concatenate_int_text_int', 'a: str, i: int, j: int', "len(a) <= 2 and all(ch in 'abAB.' for ch in a) and -1000 <= i <= 1000 and -1000 <= j <= 1000",
          "return ev('F9', A1=a, B1=i, C1=j) == str(i) + a + str(j)", encodes=cenc, requires="'F9' in K")
    # formula level for the slicing functions (pins argument order and defaults of the translators)
    fenc = ('LeftControlConstructionTokenTranslator.translate', 'RightControlConstructionTokenTranslator.translate',
            'MidControlConstructionTokenTranslator.translate', 'SearchControlConstructionTokenTranslator.translate',
            'ValueControlConstructionTokenTranslator.translate')
    s.add('f_left', 't: str, n: int', f'{tpre} and {box}', '''
        got = ev('F1', A1=t, B1=n)
        return iserr(got) if n < 0 else got == t[:n]
    ''', encodes=fenc, requires="'F1' in K")
    s.add('f_right', 't: str, n: int', f'{tpre} and {box}', '''
        got = ev('F2', A1=t, B1=n)
        return iserr(got) if n < 0 else got == (t[len(t) - n:] if n <= len(t) else t)
    ''', encodes=fenc, requires="'F2' in K")
    s.add('f_mid', 't: str, k: int, n: int', f'{tpre} and -2 <= k <= {n + 2} and {box}', '''
        got = ev('F3', A1=t, B1=k, C1=n)
        if k < 1 or n < 0:
            return iserr(got)
        return got == t[k - 1:k - 1 + n]
    ''', encodes=fenc, requires="'F3' in K")
    s.add('f_left_mid_rebuild', 't: str, n: int', f'1 <= len(t) <= {n} and all(c in "{ALPHA}" for c in t) and 0 <= n < len(t)', '''
        return ev('F4', A1=t, B1=n, C1=len(t)) == t
    ''', encodes=fenc, requires="'F4' in K")
    s.add('f_left_right_one_arg', 't: str', f'len(t) <= {n} and all(c in "{ALPHA}" for c in t)', '''
        return ev('F14', A1=t) == t[:1] and ev('F15', A1=t) == t[-1:]
    ''', encodes=fenc, requires="'F14' in K and 'F15' in K")
    s.add('f_slices_of_blank_cell', 'k: int, n: int', f'1 <= k <= {n + 2} and 0 <= n <= {n + 2}', '''
        b = RT.EmptyCell()
        return ev('F1', A1=b, B1=n) == '' and ev('F2', A1=b, B1=n) == '' and ev('F3', A1=b, B1=k, C1=n) == '' and ev('F14', A1=b) == '' and ev('F15', A1=b) == ''
    ''', encodes=fenc, requires="all(c in K for c in ('F1', 'F2', 'F3', 'F14', 'F15'))")
    s.add('f_nested_slices', 't: str, k: int, n: int', f'{tpre} and 1 <= k <= {n + 2} and 0 <= n <= 3', '''
        return ev('F17', A1=t, B1=k, C1=n) == t[k - 1:k + 1][:n]
    ''', encodes=fenc, requires="'F17' in K")
    s.add('f_nested_slices_defaults', 't: str, k: int, n: int', f'{tpre} and 0 <= k <= {n + 1} and 1 <= n <= 3', '''
        r = t[len(t) - k:] if k <= len(t) else t
        return ev('F18', A1=t, B1=k, C1=n) == t[:k][-1:] + r[n - 1:n]
    ''', encodes=fenc, requires="'F18' in K", timeout=T * 3)
    s.add('f_search2', 'f: str, t: str', f"len(f) == 1 and len(t) <= 2 and all(c in 'aAb' for c in f + t)", '''
        got = ev('F10', A1=t, A2=f)
        exp = ref_plain_search(f, t, 1)
        return got == (exp if exp is not None else '#VALUE!')
    ''', encodes=fenc, requires="'F10' in K", timeout=T * 2)
    s.add('f_search3', 'f: str, t: str, st: int', f"len(f) == 1 and len(t) <= 2 and all(c in 'aAb' for c in f + t) and 1 <= st <= 3", '''
        got = ev('F11', A1=t, A2=f, B1=st)
        exp = ref_plain_search(f, t, st)
        return got == (exp if exp is not None else '#VALUE!')
    ''', encodes=fenc, requires="'F11' in K", timeout=T * 2)
    s.add('f_search_wild_literal', 't: str', "len(t) <= 4 and all(c in 'abAB' for c in t)", '''
        got = ev('F12', A1=t)
        exp = ref_wild_search('a?b', t, 1)
        return got == (exp if exp is not None else '#VALUE!')
    ''', encodes=fenc, requires="'F12' in K", timeout=T * 2)
    s.add('f_search_wild_literal_start', 't: str, st: int', "len(t) <= 4 and all(c in 'abAB' for c in t) and 1 <= st <= 4", '''
        got = ev('F16', A1=t, B1=st)
        exp = ref_wild_search('b*a', t, st)
        return got == (exp if exp is not None else '#VALUE!')
    ''', encodes=fenc, requires="'F16' in K", timeout=T * 2)
    s.add('f_value_int', 'd: str', "1 <= len(d) <= 2 and all(c in '0123456789' for c in d)", "return ev('F13', A1=d) == int(d)", encodes=fenc, requires="'F13' in K")
    report.bound(f'texts len<={n} over "{ALPHA}"; counts/positions in -2..len+2; SEARCH plain: needle len<=2, haystack len<={n - 1}; '
                 f'wildcard patterns: {"seeded subset of" if tier == "quick" else "all"} patterns of length<=3 over {{a,b,?,*,~}} with a wildcard, text len<=3 over {{a,A,*}}, start 1..2')
    report.assume('outside the claim: non-ASCII case folding, symbolic wildcard patterns (the runtime compiles the pattern), VALUE\'s '
                  'date/time/percent ladder, text form of floats/booleans under & (observed: str() gives "True" where Excel writes TRUE; operands outside the quantified strings x integers)',
                  'CrossHair patches: re.findall via finditer, _Match.groups(default)',
                  'bare `except:` of the loaded runtime copy narrowed to `except Exception`')
    report.stub('re.findall -> finditer-based model (validated against real re.findall in this run)')
    from vlib import plugins
    bad = plugins.validate_findall([r'([^~][?*]|^[?*])'], [''.join(t) for k in range(4) for t in itertools.product('ab?*~', repeat=k)])
    if not plugins.validate_ascii_case():
        raise RuntimeError('ascii case stub validation failed')
    report.stub('str.lower/upper on symbolic text -> ASCII case model (all harness texts are ASCII by precondition; validated on all 128 code points)')
    if bad:
        report.note(f'findall stub mismatch: {bad[:3]}')
        raise RuntimeError('findall stub validation failed')
    s.run(report)
    s.report_translate_errors(report)


def replay(rp):
    print(rp)
    return 0
