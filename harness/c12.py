"""C12 — conditional aggregates select exactly the positions meeting every criterion.

E1 through the code the real Parser emits for SUMIF / SUMIFS / COUNTIFS / AVERAGEIFS with criterion forms (number, cell
reference, ">5"-style literals, ">"&cell, text, wildcard patterns), 1-2 criteria pairs, aligned and misaligned ranges.
Range contents and the referenced criterion cell are symbolic; the oracle is an independent select-then-fold with a
three-valued accept predicate (None = the statement demands nothing)."""
from vlib.e1 import Suite

LEVEL = 'other'
EXPLANATION = ('Bounded symbolic execution (CrossHair/z3) of the classes the real Parser emits for SUMIF/SUMIFS/COUNTIFS/AVERAGEIFS over a 3-row '
               'criteria column and a 3-row target column; the contents of the criteria cells (Union[int, str]), of the target cells (int) and of the '
               'cell a criterion refers to are symbolic; the criterion *forms* (number, cell, operator-prefixed literal for six operators, operator & '
               'cell, text, wildcard patterns) are an enumerated family pushed through the real lexer/parser/LambdaTokenTranslator. Oracle: independent '
               'select-then-fold; misaligned ranges must give an exception or an error value.')
RULE = ('one condition per (function, criterion form); non-trivial = confirmed over all paths with a refuted vacuity twin, or a replay-confirmed counterexample')

PRE = r'''
import re as _re
from typing import List, Tuple, Optional, Union
from vlib import build
from crosshair import realize

V = Union[int, str]
def ok(vs, n=1):
    return all(not isinstance(v, str) or (len(v) <= n and all(c in 'abA' for c in v)) for v in vs)

def okw(vs, n=1):
    return all(not isinstance(v, str) or (len(v) <= n and all(c in 'ab*?.' for c in v)) for v in vs)

def _install_plugins():
    from vlib import plugins
    plugins.install_ascii_case()

OPS = {'>': lambda a, b: a > b, '<': lambda a, b: a < b, '>=': lambda a, b: a >= b, '<=': lambda a, b: a <= b, '<>': lambda a, b: a != b, '=': lambda a, b: a == b}

def acc_num(op, k):
    """criterion `op k` with a number k: numeric cells are compared; text cells match only <> (Excel), blank unconstrained"""
    def f(v):
        if isinstance(v, bool) or v is None:
            return None
        if isinstance(v, int):
            return OPS[op](v, k)
        return op == '<>'
    return f

def acc_text(t, negate=False):
    """plain text criterion: whole-cell, case-insensitive equality"""
    def f(v):
        if v is None:
            return None
        r = isinstance(v, str) and v.lower() == t.lower()
        return (not r) if negate else r
    return f

def wm(p, i, t, j):
    if i == len(p):
        return j == len(t)
    c = p[i]
    if c == '~' and i + 1 < len(p) and p[i + 1] in '?*~':
        return j < len(t) and t[j] == p[i + 1] and wm(p, i + 2, t, j + 1)
    if c == '*':
        k = j
        while k <= len(t):
            if wm(p, i + 1, t, k):
                return True
            k += 1
        return False
    if c == '?':
        return j < len(t) and wm(p, i + 1, t, j + 1)
    return j < len(t) and t[j] == c and wm(p, i + 1, t, j + 1)

def acc_wild(p):
    """wildcard criterion, whole cell.  Case: the statement demands case-insensitivity for plain text only, so where the case-sensitive
    and the case-insensitive reading disagree nothing is demanded (None)."""
    def f(v):
        if not isinstance(v, str):
            return None if v is None else False
        cs, ci = wm(p, 0, v, 0), wm(p.lower(), 0, v.lower(), 0)
        return cs if cs == ci else None
    return f

def select(vals, accs):
    """positions accepted by every criterion; None if some decision is not demanded by the statement"""
    out = []
    for i in range(len(vals[0])):
        r = True
        for col, acc in zip(vals, accs):
            a = acc(col[i])
            if a is None:
                return None
            r = r and a
        if r:
            out.append(i)
    return out

def outcome(fn):
    try:
        return ('val', fn())
    except Exception as e:
        return ('exc', type(e).__name__)

def is_err(o):
    return o[0] == 'exc' or (isinstance(o[1], str) and o[1].startswith('#'))

CONSTS = {'A1': 1, 'A2': 2, 'A3': 3, 'B1': 10, 'B2': 20, 'B3': 30, 'C1': 2, 'D1': 5, 'D2': 6, 'D3': 7, 'D4': 8}
FORMS = {}     # name -> (criterion text in the formula, accept-builder source)
for _op in ['>', '<', '>=', '<=', '<>', '=']:
    _n = {'>': 'gt', '<': 'lt', '>=': 'ge', '<=': 'le', '<>': 'ne', '=': 'eq'}[_op]
    FORMS['lit_' + _n] = (f'"{_op}2"', f"acc_num('{_op}', 2)")
    FORMS['cat_' + _n] = (f'"{_op}"&C1', f"acc_num('{_op}', c1)")
FORMS['number'] = ('2', "acc_num('=', 2)")
FORMS['cellref'] = ('C1', "acc_num('=', c1)")
FORMS['text'] = ('"ab"', "acc_text('ab')")
FORMS['text_ne'] = ('"<>ab"', "acc_text('ab', True)")
FORMS['text_eq'] = ('"=ab"', "acc_text('ab')")
FORMS['wild_star'] = ('"a*"', "acc_wild('a*')")
FORMS['wild_q'] = ('"?b"', "acc_wild('?b')")
FORMS['wild_q_short'] = ('"a?"', "acc_wild('a?')")
FORMS['wild_escaped'] = ('"a~*"', "acc_wild('a~*')")
FORMS['wildx_two_runs'] = ('"*b*"', "acc_wild('*b*')")
FORMS['wildx_two_runs_prefix'] = ('"a*b*"', "acc_wild('a*b*')")
FORMS['wildx_mixed_run'] = ('"a?*"', "acc_wild('a?*')")
FORMS['wildx_two_q_runs'] = ('"?b?"', "acc_wild('?b?')")
FORMS['wildx_escaped_q'] = ('"~?*"', "acc_wild('~?*')")
FORMS['wildx_escaped_star'] = ('"*~*"', "acc_wild('*~*')")
FORMS['wildx_escaped_then_q'] = ('"a~*?"', "acc_wild('a~*?')")
FORMS['wildx_dot_literal'] = ('"a.*"', "acc_wild('a.*')")
FUNCS = {
    'sumif3': ('=SUMIF(A1:A3,{c},B1:B3)', 'sum'), 'sumifs': ('=SUMIFS(B1:B3,A1:A3,{c})', 'sum'), 'countifs': ('=COUNTIFS(A1:A3,{c})', 'count'),
    'averageifs': ('=AVERAGEIFS(B1:B3,A1:A3,{c})', 'avg'),
}
TRANSLATE_ERRORS = []
K = {}
for _fn, (_tpl, _) in FUNCS.items():
    for _form, (_crit, _) in FORMS.items():
        _f = _tpl.format(c=_crit)
        try:
            K[(_fn, _form)] = build.load_class(build.translate_formulas({'E1': _f}, CONSTS), f'_k_{_fn}_{_form}')
        except Exception as _e:
            TRANSLATE_ERRORS.append((_f, f'{type(_e).__name__}: {_e}'))
EXTRA = {
    'sumif2': '=SUMIF(A1:A3,">1")', 'sumif_shifted': '=SUMIF(A1:A3,">1",B2:B4)', 'sumif_first_cell': '=SUMIF(A1:A3,">1",B1)',
    'sumifs2': '=SUMIFS(B1:B3,A1:A3,">1",D1:D3,"<7")', 'countifs2': '=COUNTIFS(A1:A3,">1",D1:D3,"<7")', 'averageifs2': '=AVERAGEIFS(B1:B3,A1:A3,">1",D1:D3,"<7")',
    'sumifs_misaligned': '=SUMIFS(B1:B3,A1:A2,">1")', 'countifs_misaligned': '=COUNTIFS(A1:A3,">1",D1:D4,"<7")', 'averageifs_misaligned': '=AVERAGEIFS(B1:B3,A1:A2,">1")',
    'sumifs_wide_vs_tall': '=SUMIFS(B1:C3,A1:A3,">1")',
    'sumifs_row_misaligned': '=SUMIFS(A2:D2,A1:C1,">1")', 'countifs_row_misaligned': '=COUNTIFS(A1:C1,">1",A2:D2,"<7")', 'sumifs_rect_misaligned': '=SUMIFS(A1:B3,C1:D3,">1",A1:A3,">0")',
    'col_sumifs': '=SUMIFS(D:D,A:A,">1")', 'col_countifs': '=COUNTIFS(A:A,">1",D:D,"<8")', 'col_averageifs': '=AVERAGEIFS(D:D,A:A,">1")', 'col_sumif': '=SUMIF(A:A,">1",C:C)',
    'dec_ge': '=COUNTIFS(A1:A3,">=4.56")', 'dec_le': '=SUMIFS(B1:B3,A1:A3,"<=4.69")', 'dec_eq': '=COUNTIFS(A1:A3,"=1.14")', 'dec_ne': '=SUMIF(A1:A3,"<>0.3",B1:B3)',
    'dec_gt': '=COUNTIFS(A1:A3,">1.05")', 'dec_lt_neg': '=COUNTIFS(A1:A3,"<-2.5")', 'dec_bare': '=COUNTIFS(A1:A3,4.56)',
    'neg_lt': '=COUNTIFS(A1:A3,"<-2")', 'neg_ge': '=SUMIFS(B1:B3,A1:A3,">=-2")', 'neg_eq': '=COUNTIFS(A1:A3,"=-2")', 'neg_ne': '=SUMIF(A1:A3,"<>-2",B1:B3)', 'neg_bare': '=COUNTIFS(A1:A3,-2)',
    'catnum_gt': '=COUNTIFS(A1:A3,">1"&C1)', 'catnum_sumif': '=SUMIF(A1:A3,"<=2"&C1,B1:B3)', 'cattext_eq': '=COUNTIFS(A1:A3,"a"&C1)',
    'zero_lead_gt': '=COUNTIFS(A1:A3,">02")', 'zero_lead_eq': '=SUMIFS(B1:B3,A1:A3,"=02")', 'exp_gt': '=COUNTIFS(A1:A3,">1e1")',
}
DEC_MENU = [4.56, 4.55, 4.57, 1.14, 1.13, 4.69, 4.7, 0.3, 0.29, 1.05, 1.5, -2.5, -2.51, 0]
for _n, _f in EXTRA.items():
    try:
        K[(_n, '')] = build.load_class(build.translate_formulas({'E1': _f}, dict(CONSTS, B4=40)), f'_k_{_n}')
    except Exception as _e:
        TRANSLATE_ERRORS.append((_f, f'{type(_e).__name__}: {_e}'))

def ev(key, **ov):
    k = K[key]
    args = [{'uid': build.uid(0, a), 'value': v} for a, v in ov.items()]
    inst = k(args)
    # AVERAGEIFS: the final division is spied (symbolic division makes the solver crawl): the selected cells must be handed to _average
    inst._average = lambda lst: ('AVG', sorted(lst))
    return inst.exec_function_in(build.uid(0, 'E1'))
'''


def run(report, tier, seed):
    T = 90 if tier == 'quick' else 300
    s = Suite('C12', 'crit', PRE, timeout=T)
    enc = ('LambdaTokenTranslator.translate', 'RangeOfCellIdentifierWithConditionTokenTranslator.translate', 'SumIfControlConstructionTokenTranslator.translate',
           'SumIfsControlConstructionTokenTranslator.translate', 'CountIfsControlConstructionTokenTranslator.translate', 'AverageIfsControlConstructionTokenTranslator.translate',
           'ExcelInPython._sum_if/_sumifs/_countifs/_averageifs/_regexp/_parse_date_obj', 'Excel.get_similar_second')
    ns = {}
    exec(PRE.split('TRANSLATE_ERRORS = []')[0], ns)     # FORMS / FUNCS tables (no translation)
    forms, funcs = ns['FORMS'], ns['FUNCS']
    numeric_forms = [f for f in forms if f.startswith(('lit_', 'cat_')) or f in ('number', 'cellref')]
    for fn, (tpl, fold) in funcs.items():
        for form, (crit, accsrc) in forms.items():
            numeric = form in numeric_forms
            # text / wildcard forms: one symbolic cell (the accept predicate is what they add; position selection is covered by the numeric forms)
            sig = 'a1: V, a2: V, a3: V, b1: int, b2: int, b3: int, c1: int' if numeric else 'a1: str, b1: int, b2: int, b3: int'
            pre = 'ok([a1, a2, a3])' if numeric else ('okw([a1], 3)' if form.startswith(('wildx_', 'wild_escaped')) else 'ok([a1], 3)')
            head = '' if numeric else "a2, a3, c1 = 'ab', 7, 2\n                a1 = realize(a1)\n                "
            accsrc = head + 'sel = select([[a1, a2, a3]], [' + accsrc + '])'
            if fold == 'sum':
                exp = 'sum([b1, b2, b3][i] for i in sel)'
                cmp_ = f"o == ('val', {exp})"
            elif fold == 'count':
                cmp_ = "o == ('val', len(sel))"
            else:
                cmp_ = "(is_err(o) if not sel else o == ('val', ('AVG', sorted([b1, b2, b3][i] for i in sel))))"
            s.add(f'{fn}__{form}', sig, pre, f'''
                {accsrc}
                if sel is None:
                    return True
                o = outcome(lambda: ev(('{fn}', '{form}'), A1=a1, A2=a2, A3=a3, B1=b1, B2=b2, B3=b3, C1=c1))
                return {cmp_}
            ''', encodes=enc, requires=f"('{fn}', '{form}') in K", note=tpl.format(c=crit), timeout=T)
    # target range derivation of SUMIF, two pairs, misaligned ranges
    s.add('sumif_two_arguments', 'a1: int, a2: int, a3: int', 'True', '''
        return ev(('sumif2', ''), A1=a1, A2=a2, A3=a3) == sum(v for v in [a1, a2, a3] if v > 1)
    ''', encodes=enc, requires="('sumif2', '') in K")
    s.add('sumif_target_starts_lower', 'a1: int, a2: int, a3: int, b2: int, b3: int, b4: int', 'True', '''
        return ev(('sumif_shifted', ''), A1=a1, A2=a2, A3=a3, B2=b2, B3=b3, B4=b4) == sum(b for a, b in zip([a1, a2, a3], [b2, b3, b4]) if a > 1)
    ''', encodes=enc, requires="('sumif_shifted', '') in K")
    s.add('sumif_target_given_by_first_cell', 'a1: int, a2: int, a3: int, b1: int, b2: int, b3: int', 'True', '''
        return ev(('sumif_first_cell', ''), A1=a1, A2=a2, A3=a3, B1=b1, B2=b2, B3=b3) == sum(b for a, b in zip([a1, a2, a3], [b1, b2, b3]) if a > 1)
    ''', encodes=enc, requires="('sumif_first_cell', '') in K")
    six = 'a1: int, a2: int, a3: int, d1: int, d2: int, d3: int'
    s.add('sumifs_two_pairs', six + ', b1: int, b2: int, b3: int', 'True', '''
        sel = [i for i in range(3) if [a1, a2, a3][i] > 1 and [d1, d2, d3][i] < 7]
        return ev(('sumifs2', ''), A1=a1, A2=a2, A3=a3, D1=d1, D2=d2, D3=d3, B1=b1, B2=b2, B3=b3) == sum([b1, b2, b3][i] for i in sel)
    ''', encodes=enc, requires="('sumifs2', '') in K")
    s.add('countifs_two_pairs', six, 'True', '''
        sel = [i for i in range(3) if [a1, a2, a3][i] > 1 and [d1, d2, d3][i] < 7]
        return outcome(lambda: ev(('countifs2', ''), A1=a1, A2=a2, A3=a3, D1=d1, D2=d2, D3=d3)) == ('val', len(sel))
    ''', encodes=enc, requires="('countifs2', '') in K")
    s.add('averageifs_two_pairs', six, 'True', '''
        sel = [i for i in range(3) if [a1, a2, a3][i] > 1 and [d1, d2, d3][i] < 7]
        o = outcome(lambda: ev(('averageifs2', ''), A1=a1, A2=a2, A3=a3, D1=d1, D2=d2, D3=d3))
        return is_err(o) if not sel else o == ('val', ('AVG', sorted([10, 20, 30][i] for i in sel)))
    ''', encodes=enc, requires="('averageifs2', '') in K")
    for nm in ('sumifs_misaligned', 'countifs_misaligned', 'averageifs_misaligned', 'sumifs_wide_vs_tall'):
        s.add(nm, 'a1: int, a2: int, a3: int', 'True', f'''
            return is_err(outcome(lambda: ev(('{nm}', ''), A1=a1, A2=a2, A3=a3)))
        ''', encodes=enc, requires=f"('{nm}', '') in K")
    for nm in ('sumifs_row_misaligned', 'countifs_row_misaligned', 'sumifs_rect_misaligned'):
        s.add(nm, 'a1: int, a2: int, a3: int', 'True', f'''
            return is_err(outcome(lambda: ev(('{nm}', ''), A1=a1, A2=a2, A3=a3)))
        ''', encodes=enc, requires=f"('{nm}', '') in K")
    # whole-column ranges over columns filled to different rows (A: 3 rows, D: 4, B: 4, C: 1); rows below the data are blank and never selected
    col = 'a1: int, a2: int, a3: int, d1: int, d2: int, d3: int, d4: int'
    s.add('whole_columns_sumifs', col, 'True', '''
        return outcome(lambda: ev(('col_sumifs', ''), A1=a1, A2=a2, A3=a3, D1=d1, D2=d2, D3=d3, D4=d4)) == ('val', sum(d for a, d in zip([a1, a2, a3], [d1, d2, d3]) if a > 1))
    ''', encodes=enc, requires="('col_sumifs', '') in K")
    s.add('whole_columns_countifs', col, 'True', '''
        return outcome(lambda: ev(('col_countifs', ''), A1=a1, A2=a2, A3=a3, D1=d1, D2=d2, D3=d3, D4=d4)) == ('val', len([1 for a, d in zip([a1, a2, a3], [d1, d2, d3]) if a > 1 and d < 8]))
    ''', encodes=enc, requires="('col_countifs', '') in K")
    s.add('whole_columns_averageifs', col, 'True', '''
        sel = [d for a, d in zip([a1, a2, a3], [d1, d2, d3]) if a > 1]
        o = outcome(lambda: ev(('col_averageifs', ''), A1=a1, A2=a2, A3=a3, D1=d1, D2=d2, D3=d3, D4=d4))
        return is_err(o) if not sel else o == ('val', ('AVG', sorted(sel)))
    ''', encodes=enc, requires="('col_averageifs', '') in K")
    s.add('whole_columns_sumif_short_target', 'a1: int, a2: int, a3: int, c1: int, c3: int', 'True', '''
        return outcome(lambda: ev(('col_sumif', ''), A1=a1, A2=a2, A3=a3, C1=c1, C3=c3)) == ('val', (c1 if a1 > 1 else 0) + (c3 if a3 > 1 else 0))
    ''', encodes=enc, requires="('col_sumif', '') in K")
    # decimal thresholds: the number in the criterion text must be the double the same decimal denotes in a cell (cells drawn from a menu by symbolic index)
    dec = f'i: int, j: int, k: int, b1: int, b2: int, b3: int', f'0 <= i < {14} and 0 <= j < {14} and 0 <= k < {14}'
    for nm, op, thr, fold in (('dec_ge', '>=', 4.56, 'count'), ('dec_le', '<=', 4.69, 'sum'), ('dec_eq', '==', 1.14, 'count'), ('dec_ne', '!=', 0.3, 'sum'), ('dec_gt', '>', 1.05, 'count'),
                              ('dec_lt_neg', '<', -2.5, 'count'), ('dec_bare', '==', 4.56, 'count')):
        exp = f'len([1 for v in vs if v {op} {thr!r}])' if fold == 'count' else f'sum(b for v, b in zip(vs, [b1, b2, b3]) if v {op} {thr!r})'
        s.add('decimal_threshold_' + nm, dec[0], dec[1], f'''
            vs = [DEC_MENU[realize(i)], DEC_MENU[(realize(i) + 5) % 14], DEC_MENU[(realize(i) + 9) % 14]]
            return outcome(lambda: ev(('{nm}', ''), A1=vs[0], A2=vs[1], A3=vs[2], B1=b1, B2=b2, B3=b3)) == ('val', {exp})
        ''', encodes=enc, requires=f"('{nm}', '') in K")
    three = 'a1: int, a2: int, a3: int, b1: int, b2: int, b3: int'
    for nm, op, thr, fold in (('neg_lt', '<', -2, 'count'), ('neg_ge', '>=', -2, 'sum'), ('neg_eq', '==', -2, 'count'), ('neg_ne', '!=', -2, 'sum'), ('neg_bare', '==', -2, 'count'),
                              ('zero_lead_gt', '>', 2, 'count'), ('zero_lead_eq', '==', 2, 'sum'), ('exp_gt', '>', 10, 'count')):
        exp = f'len([1 for v in vs if v {op} {thr!r}])' if fold == 'count' else f'sum(b for v, b in zip(vs, [b1, b2, b3]) if v {op} {thr!r})'
        s.add('signed_threshold_' + nm, three, 'True' if nm != 'exp_gt' else '-20 <= a1 <= 20', f'''
            {"a1 = realize(a1); a2 = 11; a3 = 10" if nm == 'exp_gt' else ""}
            vs = [a1, a2, a3]
            return outcome(lambda: ev(('{nm}', ''), A1=a1, A2=a2, A3=a3, B1=b1, B2=b2, B3=b3)) == ('val', {exp})
        ''', encodes=enc, requires=f"('{nm}', '') in K")
    # a criterion assembled from a literal that already carries a number / a text and a cell: ">1"&C1 is the criterion ">1<C1>"
    s.add('assembled_number_prefix_gt', 'a1: int, a2: int, a3: int, c1: int', '0 <= c1 <= 99', '''
        thr = int('1' + str(c1))
        return outcome(lambda: ev(('catnum_gt', ''), A1=a1, A2=a2, A3=a3, C1=c1)) == ('val', len([v for v in [a1, a2, a3] if v > thr]))
    ''', encodes=enc, requires="('catnum_gt', '') in K")
    s.add('assembled_number_prefix_le_sumif', 'a1: int, a2: int, a3: int, b1: int, b2: int, b3: int, c1: int', '0 <= c1 <= 99', '''
        thr = int('2' + str(c1))
        return outcome(lambda: ev(('catnum_sumif', ''), A1=a1, A2=a2, A3=a3, B1=b1, B2=b2, B3=b3, C1=c1)) == ('val', sum(b for v, b in zip([a1, a2, a3], [b1, b2, b3]) if v <= thr))
    ''', encodes=enc, requires="('catnum_sumif', '') in K")
    s.add('assembled_text_prefix_eq', 'a1: str, c1: int', "len(a1) <= 2 and all(ch in 'aA12' for ch in a1) and 0 <= c1 <= 9", '''
        a1 = realize(a1)
        want = ('a' + str(c1)).lower()
        return outcome(lambda: ev(('cattext_eq', ''), A1=a1, A2='zz', A3=7, C1=c1)) == ('val', 1 if a1.lower() == want else 0)
    ''', encodes=enc, requires="('cattext_eq', '') in K")
    report.bound('3-row criteria column (cells Union[int, str]: len<=1 for numeric criterion forms, one symbolic cell with str len<=3 over abA (text and simple wildcard forms) or over ab*?. (forms with several wildcard runs, escapes, a regex-special character), realised early (the solver enumerates the 40 / 156 texts)), 3-row int target column, criterion cell int; criterion forms: '
                 f'{len(forms)} (x 4 functions) + 24 structural shapes (2 pairs, target derivation, misaligned ranges incl. row/rectangle layouts, whole-column ranges over columns of different fill, decimal thresholds on a 14-value menu)')
    report.assume('three-valued accept predicate: blank/boolean cells and wildcard matches that differ between the case-sensitive and case-insensitive '
                  'reading are unconstrained (the statement demands case-insensitivity for plain text only); a text cell under a numeric comparison '
                  'must not match except for <> (Excel)',
                  'AVERAGEIFS: the cells handed to _average are compared (the division itself is covered by C11 average_helper_small_ints)',
                  'outside the claim: date criteria, ranges longer than 4, more than 2 pairs, float cells other than the decimal-threshold menu',
                  'CrossHair patches: re.findall via finditer, ASCII str.lower/upper (texts are ASCII by precondition)')
    s.run(report)
    s.report_translate_errors(report)


def replay(rp):
    print(rp)
    return 0
