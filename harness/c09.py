"""C09 — translation output depends only on the current workbook and settings.

First sentence: one *inductive step* of the real Parser facade from an arbitrary pre-state satisfying the cache invariant
(covers call histories of any length).  Excel / Context / CellTranslator are replaced by stubs whose result is the pure
function F(path, entry, safety); `open` is stubbed.  E1 (CrossHair).
Second sentence (byte-identical across processes / hash seeds / threads): not decided by this family; a concrete
same-process-history differential is run and labelled as concrete."""
import json
import os
import subprocess
import sys
import time

from vlib.e1 import Suite

LEVEL = 'other'
EXPLANATION = ('Inductive step of the real Parser facade under CrossHair/z3: the whole pre-state (file path, entry cell, safety flag, both '
               'dirty flags, cached translation) is symbolic and assumed to satisfy the invariant "flags clean => cached text == F(current '
               'settings) and F(current settings) does not raise"; one facade call with a symbolic argument is executed on the real method; '
               'the postcondition is the invariant again and, for get/write, "returns F(current) / writes exactly the returned text / raises '
               'exactly when F(current) raises". Parser() satisfies the invariant, so every history of any length is covered. The translation '
               'chain behind the facade is stubbed by F (stated). A concrete same-process history differential on the real chain is added.')
RULE = ('one condition per facade method (x outcome clause); non-trivial = confirmed over all paths with a refuted vacuity twin, or a '
        'replay-confirmed counterexample (replayed as a real call history on real workbooks)')

PRE = r'''
from typing import List, Tuple, Optional, Union
import excel2pycl.src.utilities.parser as PM
from excel2pycl.src.exceptions import E2PyclParserException, E2PyclSafetyException

PATHS = [None, 'A.xlsx', 'B.xlsx', 'U.xlsx']      # U.xlsx holds a suspicious cell
from excel2pycl.src.cell import Cell

def _entries():
    return [None, Cell(0, 1, 0), Cell('S', 'C', '2')]       # real Cell objects: by index, and by sheet title / letters

ENTRIES = _entries()       # pristine templates for the expectations; the parser under test gets its own objects

def unsafe(p):
    return p == 'U.xlsx'

CONTENT = [0]       # version of the workbook content currently on disk (under whatever path); set_path may coincide with a changed file

def text(p, e, v=None):
    return 'class<' + str(p) + '|' + str(e) + '|v' + str(CONTENT[0] if v is None else v) + '>'

def f_raises(p, e, safety):
    return (not p) or (safety and unsafe(p))

class StubExcel:
    def __init__(self, path):
        self.path = path
        self.ver = CONTENT[0]            # the content is read at parse time
    @classmethod
    def parse(cls, path):
        return cls(path)
    def is_safe(self):
        if unsafe(self.path):
            raise E2PyclSafetyException(suspicious_cells={"'S'A1": ['eval(1)']})
    def get_titles(self):
        return {'S': 0}
    def get_sheets_size(self):
        return [{'last_column': 1, 'last_row': 1}]

class StubContext:
    def __init__(self):
        self.res = None
    def build_class(self):
        return self.res

class StubCellTranslator:
    @classmethod
    def translate(cls, cell, excel, context):
        context.res = text(excel.path, cell, excel.ver)
        # like the real translator (handle_cell / fill_cell), the cell it is handed is normalised in place
        cell.title, cell.column, cell.row, cell.value, cell._handled_identifiers = 0, 7, 7, 'filled', True
    @classmethod
    def translate_file(cls, excel, context):
        context.res = text(excel.path, None, excel.ver)

WRITTEN = {}
class _F:
    def __init__(self, name):
        self.name = name
    def __enter__(self):
        return self
    def __exit__(self, *a):
        return False
    def write(self, s):
        WRITTEN[self.name] = WRITTEN.get(self.name, '') + s if self.name in WRITTEN and WRITTEN[self.name] is not None else s
def fake_open(name, mode='r', encoding=None):
    WRITTEN[name] = None
    return _F(name)

PM.Excel, PM.Context, PM.CellTranslator, PM.open = StubExcel, StubContext, StubCellTranslator, fake_open

# dirty flags are discovered, not named: every attribute of a fresh Parser ending in _has_been_changed (at most 3 are driven)
FLAGS = sorted(k for k in vars(PM.Parser()) if k.endswith('_has_been_changed'))[:3]

def mk(pi, ei, safety, f1, f2, f3, has_t, tpi, tei):
    """Parser in an arbitrary state; cached translation is None or the text of some earlier settings"""
    p = PM.Parser()
    p._excel_file_path = PATHS[pi]
    p._entrypoint_cell = _entries()[ei]
    p._safety_check = safety
    for k, v in zip(FLAGS, (f1, f2, f3)):
        setattr(p, k, v)
    p._translation = text(PATHS[tpi], ENTRIES[tei], 0) if has_t else None      # cached text, if any, was made from content version 0
    CONTENT[0] = 0
    return p

def dirty(p):
    for k in FLAGS:
        if getattr(p, k):
            return True
    return False

def inv(p):
    """flags clean => the cache is exactly what the current settings produce, and producing it does not raise"""
    if dirty(p):
        return True
    return (not f_raises(p._excel_file_path, p._entrypoint_cell, p._safety_check)
            and p._translation == text(p._excel_file_path, p._entrypoint_cell))

STATE = 'pi: int, ei: int, safety: bool, fp: bool, fe: bool, has_t: bool, tpi: int, tei: int'
'''

SPRE = '0 <= ei < 3 and 0 <= tpi < 4 and 0 <= tei < 3 and inv(mk(pi, ei, safety, f1, f2, f3, has_t, tpi, tei))'


def run(report, tier, seed):
    s = Suite('C09', 'facade', PRE, timeout=90 if tier == 'quick' else 300)
    enc = ('Parser.set_excel_file_path', 'Parser.set_entrypoint_cell', 'Parser.enable_safety_check', 'Parser.disable_safety_check',
           'Parser._translate', 'Parser.get_translation', 'Parser.write_translation', 'Parser.__init__')
    st = 'ei: int, safety: bool, f1: bool, f2: bool, f3: bool, has_t: bool, tpi: int, tei: int'
    s.add('init_satisfies_invariant', 'x: int', 'True', '''
        p = PM.Parser()
        return inv(p) and p._safety_check is True
    ''', encodes=enc)
    _add = s.add

    def add_split(name, sig, pre, body, **kw):
        for pi in range(4):
            _add(f'{name}_p{pi}', sig, __import__('re').sub(r'\bpi\b', str(pi), pre), f'pi = {pi}\n' + __import__('textwrap').dedent(body).strip('\n'), **kw)
    s.add = add_split
    s.add('step_set_path', st + ', npi: int, changed: bool', SPRE + ' and 0 <= npi < 4', '''
        p = mk(pi, ei, safety, f1, f2, f3, has_t, tpi, tei)
        if changed:
            CONTENT[0] = 1          # the workbook on disk was rewritten before the path is set (again)
        r = p.set_excel_file_path(PATHS[npi])
        return r is p and inv(p) and p._excel_file_path == PATHS[npi] and p._entrypoint_cell == ENTRIES[ei] and p._safety_check == safety
    ''', encodes=enc, timeout=240)
    s.add('step_set_entry', st + ', nei: int', SPRE + ' and 0 <= nei < 3', '''
        p = mk(pi, ei, safety, f1, f2, f3, has_t, tpi, tei)
        r = p.set_entrypoint_cell(_entries()[nei])
        return r is p and inv(p) and p._entrypoint_cell == ENTRIES[nei] and p._excel_file_path == PATHS[pi] and p._safety_check == safety
    ''', encodes=enc)
    s.add('step_enable_safety', st, SPRE, '''
        p = mk(pi, ei, safety, f1, f2, f3, has_t, tpi, tei)
        r = p.enable_safety_check()
        return r is p and inv(p) and p._safety_check is True and p._excel_file_path == PATHS[pi] and p._entrypoint_cell == ENTRIES[ei]
    ''', encodes=enc)
    s.add('step_disable_safety', st, SPRE, '''
        p = mk(pi, ei, safety, f1, f2, f3, has_t, tpi, tei)
        r = p.disable_safety_check()
        return r is p and inv(p) and p._safety_check is False and p._excel_file_path == PATHS[pi] and p._entrypoint_cell == ENTRIES[ei]
    ''', encodes=enc)
    s.add('step_get', st, SPRE, '''
        p = mk(pi, ei, safety, f1, f2, f3, has_t, tpi, tei)
        should_raise = f_raises(PATHS[pi], ENTRIES[ei], safety)
        try:
            got = p.get_translation()
        except E2PyclParserException as e:
            return should_raise and inv(p) and (isinstance(e, E2PyclSafetyException) == (bool(PATHS[pi]) and safety and unsafe(PATHS[pi])))
        return (not should_raise) and got == text(PATHS[pi], ENTRIES[ei]) and inv(p) and p._excel_file_path == PATHS[pi] \\
            and p._entrypoint_cell == ENTRIES[ei] and p._safety_check == safety
    ''', encodes=enc)
    s.add('step_get_twice_identical', st, SPRE, '''
        p = mk(pi, ei, safety, f1, f2, f3, has_t, tpi, tei)
        try:
            a = p.get_translation()
        except E2PyclParserException:
            try:
                p.get_translation()
            except E2PyclParserException:
                return True
            return False        # a failed translation must fail again while nothing changed
        return p.get_translation() == a
    ''', encodes=enc)
    s.add('step_write', st, SPRE, '''
        p = mk(pi, ei, safety, f1, f2, f3, has_t, tpi, tei)
        WRITTEN.clear()
        should_raise = f_raises(PATHS[pi], ENTRIES[ei], safety)
        try:
            r = p.write_translation('out.py')
        except E2PyclParserException:
            return should_raise and inv(p) and 'out.py' not in WRITTEN
        return (not should_raise) and r is p and WRITTEN.get('out.py') == text(PATHS[pi], ENTRIES[ei]) and inv(p) \\
            and p.get_translation() == WRITTEN.get('out.py')
    ''', encodes=enc)
    report.bound('pre-state: path in {None, A, B, U(unsafe)}, entry in {None, e1, e2}, safety, both dirty flags, cached text None or the text of any '
                 '(path, entry) - all symbolic (1 152 raw pre-states, filtered by the invariant); one call with a symbolic argument')
    report.assume('Excel.parse / Excel.is_safe / Context / CellTranslator are replaced by stubs computing the pure function F(path, entry, safety); '
                  'builtin open is replaced by an in-memory stub (both stubs are part of the claim)',
                  'second sentence of the statement (byte-identical output across processes, hash seeds, threads) is not decided by this family; '
                  'only a concrete same-process history differential on the real chain is run')
    report.stub('Excel/Context/CellTranslator -> F(path, entry, safety); open -> in-memory file')
    s.run(report)
    concrete_history(report)
    hashseed_sweep(report)
    thread_probe(report)


HIST = r'''
import sys, json, os, tempfile
sys.path.insert(0, %(verif)r)
from vlib import build
from excel2pycl import Parser, Cell
d = tempfile.mkdtemp(prefix='c09_', dir=%(work)r)
# same layout and formula texts, different constants, and a referenced sheet at a different position
A = [('Main', {'A1': 5, 'A2': 7, 'B1': '=A1+A2', 'C1': '=SUM(A1:A2)', 'D1': '=Other!A1*2', 'E1': '=IF(A1>3,A2,0)'}), ('Other', {'A1': 1, 'B1': '=A1+1'}), ('Pad', {'A1': 9, 'B1': '=A1+2'})]
B = [('Main', {'A1': 50, 'A2': 70, 'B1': '=A1+A2', 'C1': '=SUM(A1:A2)', 'D1': '=Other!A1*2', 'E1': '=IF(A1>3,A2,0)'}), ('Pad', {'A1': 90, 'B1': '=A1+2'}), ('Other', {'A1': 10, 'B1': '=A1+1'})]
def norm(sheets):
    return [(t, build.a1(c)) for t, c in sheets]
pa = build.write_xlsx(os.path.join(d, 'a.xlsx'), norm(A))
pb = build.write_xlsx(os.path.join(d, 'b.xlsx'), norm(B))
pu = build.write_xlsx(os.path.join(d, 'u.xlsx'), norm([('Main', {'A1': 5, 'B1': 'eval(1)', 'C1': '__import__("os")'}), ('Other', {'A1': 'exec(2)'})]))
mode = sys.argv[1]
out = {}
if mode == 'fresh':
    out['b'] = Parser().disable_safety_check().set_excel_file_path(pb).get_translation()
    out['b_entry'] = Parser().disable_safety_check().set_excel_file_path(pb).set_entrypoint_cell(Cell(0, 3, 0)).get_translation()
    out['b_entry_by_title'] = Parser().disable_safety_check().set_excel_file_path(pb).set_entrypoint_cell(Cell('Other', 'B', '1')).get_translation()
    out['b_entry_by_title_again'] = out['b_entry_by_title']
    out['b_safe_after_unsafe'] = Parser().enable_safety_check().set_excel_file_path(pb).get_translation()
    out['b_safe_after_rejected'] = out['b_safe_after_unsafe']
else:
    Parser().disable_safety_check().set_excel_file_path(pa).get_translation()
    p = Parser().disable_safety_check().set_excel_file_path(pa)
    p.get_translation()
    out['b'] = p.set_excel_file_path(pb).get_translation()
    out['b_entry'] = Parser().disable_safety_check().set_excel_file_path(pb).set_entrypoint_cell(Cell(0, 3, 0)).get_translation()
    # the entry point is named by sheet title; the sheet sits at another position in the second workbook
    c = Cell('Other', 'B', '1')
    q = Parser().disable_safety_check().set_excel_file_path(pa).set_entrypoint_cell(c)
    q.get_translation()
    out['b_entry_by_title'] = q.set_excel_file_path(pb).get_translation()
    # the caller's Cell object handed to a second parser afterwards
    out['b_entry_by_title_again'] = Parser().disable_safety_check().set_excel_file_path(pb).set_entrypoint_cell(c).get_translation()
    # a workbook with suspicious cells was read earlier in the process (check off, other Parser; then check on and rejected)
    Parser().disable_safety_check().set_excel_file_path(pu).get_translation()
    try:
        out['b_safe_after_unsafe'] = Parser().enable_safety_check().set_excel_file_path(pb).get_translation()
    except Exception as e0:
        out['b_safe_after_unsafe'] = f'{type(e0).__name__}: {e0}'[:200]
    try:
        Parser().enable_safety_check().set_excel_file_path(pu).get_translation()
        out['b_safe_after_rejected'] = 'the unsafe workbook was not rejected'
    except Exception as e:
        try:
            out['b_safe_after_rejected'] = Parser().enable_safety_check().set_excel_file_path(pb).get_translation()
        except Exception as e2:
            out['b_safe_after_rejected'] = f'{type(e2).__name__}: {e2}'[:200]
import shutil; shutil.rmtree(d, ignore_errors=True)
print(json.dumps(out))
'''


def concrete_history(report):
    """real chain: translating B after A in one process must give the text a fresh process gives for B (concrete)."""
    from vlib import VERIF, WORK
    t0 = time.time()
    work = os.path.join(WORK, 'C09')
    os.makedirs(work, exist_ok=True)
    code = HIST % dict(verif=VERIF, work=work)
    outs = {}
    for mode in ('fresh', 'history'):
        r = subprocess.run([sys.executable, '-W', 'ignore', '-c', code, mode], capture_output=True, text=True, timeout=300,
                           env=dict(os.environ, PYTHONHASHSEED='0'))
        if r.returncode != 0:
            report.condition('history.real_chain', 'concrete', 'inconclusive', time.time() - t0, 0, r.stderr[-300:])
            return
        outs[mode] = json.loads(r.stdout.strip().splitlines()[-1])
    bad = [k for k in outs['fresh'] if outs['fresh'][k] != outs['history'][k]]
    if bad:
        report.condition('history.real_chain', 'concrete', 'violated', time.time() - t0, 2, f'texts differ for {bad}')
        report.violation('history.real_chain', 'translate a.xlsx then b.xlsx in one process vs b.xlsx in a fresh process',
                         f'translation of b ({bad}) depends on the earlier translation of a')
    else:
        report.condition('history.real_chain', 'concrete', 'holds', time.time() - t0, 2,
                         'concrete differential (2 workbooks, whole-file, entry-point by index and by sheet title with the sheet at another position, the same Cell object reused, a clean workbook with the check on after a suspicious one was read / rejected), not a solver verdict')


HASHSEED = r'''
import sys, os, hashlib, tempfile, shutil
sys.path.insert(0, %(verif)r)
from vlib import build
from excel2pycl import Parser
d = tempfile.mkdtemp(prefix='c09h_', dir=%(work)r)
W = [('Main', {'A1': 5, 'A2': 7, 'A3': 'x', 'B1': 1, 'B2': 2, 'B3': 3, 'C1': '=SUMIFS(B1:B3,A1:A3,">1",B1:B3,"<3")', 'C2': '=COUNTIFS(A1:A3,">1",B1:B3,"<3",A1:A3,"<9")',
              'C3': '=SUM(A1:A2)+MAX(B1:B3)', 'D1': '=IF(A1>3,"p","q")&Other!A1', 'D2': '=AVERAGEIFS(B1:B3,A1:A3,">1",B1:B3,">0")', 'D3': '=OR(A1>1,B1>2,A2>3,B3>0)', 'E1': '=AND(A1>1,B1>0,A2>3)', 'E2': '=MAX(A1,B2,A2,B3)+MIN(B1,A2)',
              'E3': '=COUNT(A1:A2,B1:B3,5)&CONCATENATE(A3,B1,"k")'}), ('Other', {'A1': 'z'})]
p = build.write_xlsx(os.path.join(d, 'w.xlsx'), [(t, build.a1(c)) for t, c in W])
print(hashlib.sha256(Parser().disable_safety_check().set_excel_file_path(p).get_translation().encode()).hexdigest())
shutil.rmtree(d, ignore_errors=True)
'''


THREADS = r'''
import sys, os, hashlib, tempfile, shutil, threading
sys.path.insert(0, %(verif)r)
from vlib import build
from excel2pycl import Parser
d = tempfile.mkdtemp(prefix='c09t_', dir=%(work)r)
paths = []
for k in range(4):
    # different workbooks whose formula cells sit at the same coordinates
    W = [('Main', {'A1': '=B1+%%d' %% k, 'B1': '=C1*2', 'C1': k + 1, 'A2': '=SUM(A1:C1)', 'D1': '=IF(A1>3,"p","q")&Other!A1'}), ('Other', {'A1': '=Main!C1+%%d' %% k})]
    # a long dependency chain keeps many cells "in translation" for a while, so that the threads really overlap
    for i in range(1, 120):
        W[0][1]['F%%d' %% i] = '=F%%d+%%d' %% (i + 1, k)
    W[0][1]['F120'] = k
    paths.append(build.write_xlsx(os.path.join(d, 'w%%d.xlsx' %% k), [(t, build.a1(c)) for t, c in W]))
def tr(p):
    try:
        return hashlib.sha256(Parser().disable_safety_check().set_excel_file_path(p).get_translation().encode()).hexdigest()
    except Exception as e:
        return f'{type(e).__name__}: {e}'[:120]
seq = [tr(p) for p in paths]
bad = []
for rnd in range(3):
    res = [None] * 4
    def work(i):
        res[i] = tr(paths[i])
    ts = [threading.Thread(target=work, args=(i,)) for i in range(4)]
    [t.start() for t in ts]; [t.join() for t in ts]
    bad += [(rnd, i, res[i]) for i in range(4) if res[i] != seq[i]]
shutil.rmtree(d, ignore_errors=True)
print(repr(bad[:3]))
'''


def thread_probe(report):
    """concrete (labelled): four threads, each with its own Parser and workbook (formula cells at the same coordinates), three rounds; every text
    must equal the sequentially produced one"""
    from vlib import VERIF, WORK
    t0 = time.time()
    work = os.path.join(WORK, 'C09')
    os.makedirs(work, exist_ok=True)
    r = subprocess.run([sys.executable, '-W', 'ignore', '-c', THREADS % dict(verif=VERIF, work=work)], capture_output=True, text=True, timeout=600, env=dict(os.environ))
    if r.returncode != 0:
        report.condition('threads.real_chain', 'concrete', 'inconclusive', time.time() - t0, 0, r.stderr[-300:])
        return
    out = r.stdout.strip().splitlines()[-1]
    if out != '[]':
        report.condition('threads.real_chain', 'concrete', 'violated', time.time() - t0, 12, out[:300])
        report.violation('threads.real_chain', '4 threads x 3 rounds, own Parser and workbook each', f'a translation made beside other threads differs from the sequential one: {out[:250]}')
    else:
        report.condition('threads.real_chain', 'concrete', 'holds', time.time() - t0, 12, '12 threaded translations equal the sequential texts (concrete probe, not a solver verdict)')


def hashseed_sweep(report):
    """second sentence of C09 (byte-identical text across processes / hash seeds): NOT a solver verdict - a concrete sweep over PYTHONHASHSEED"""
    from vlib import VERIF, WORK
    t0 = time.time()
    work = os.path.join(WORK, 'C09')
    os.makedirs(work, exist_ok=True)
    code = HASHSEED % dict(verif=VERIF, work=work)
    digests = {}
    for hs in ('0', '1', '2', '3', '17', '4242'):
        r = subprocess.run([sys.executable, '-W', 'ignore', '-c', code], capture_output=True, text=True, timeout=300, env=dict(os.environ, PYTHONHASHSEED=hs))
        if r.returncode != 0:
            report.condition('hashseed.real_chain', 'concrete', 'inconclusive', time.time() - t0, 0, r.stderr[-300:])
            return
        digests[hs] = r.stdout.strip().splitlines()[-1]
    if len(set(digests.values())) > 1:
        report.condition('hashseed.real_chain', 'concrete', 'violated', time.time() - t0, len(digests), f'translation text differs between hash seeds: {digests}')
        report.violation('hashseed.real_chain', 'same workbook translated under PYTHONHASHSEED ' + ', '.join(digests), f'sha256 of the text differs: {digests}')
    else:
        report.condition('hashseed.real_chain', 'concrete', 'holds', time.time() - t0, len(digests), 'same text under 6 hash seeds (concrete sweep, not a solver verdict)')


def replay(rp):
    print(rp)
    return 0
