"""C07 — workbook text never becomes executable code.

E2: z3 enumerates payload texts (sequences of up to 3 symbols of an adversarial alphabet: quotes, backslash, newline, # { } %, brackets,
wildcards, and two multi-character attack symbols) and the context they are placed in (constant cell, plain formula literal, criterion literal,
">"& literal, wildcard pattern position, SEARCH argument, DATEDIF unit, sheet title).  Every case is a real .xlsx through the real Parser.
Oracle ("inert string data"): the generated module must compile and, with every string constant blanked, be *the same AST* as the module
generated for a benign twin text in the same context - so the payload can only have influenced string constants; a constant cell and a
plain literal must moreover evaluate to exactly the payload, and evaluating under a canary must not call it."""
import ast
import os
import shutil
import tempfile

import z3

from vlib import NCPU, WORK, build, e2

LEVEL = 'other'
EXPLANATION = ('Bounded exploration of payload texts x placement contexts, enumerated by z3 and executed natively through the real Parser on real .xlsx '
               'files. For every case the generated module is parsed with Python\'s ast; with all string constants blanked it must be identical to the '
               'module generated for a benign twin text in the same context (=> the payload influenced string constants only, never syntax); constant '
               'cells and plain literals must evaluate to exactly the payload; the module is loaded and the cell evaluated with a canary callable in '
               'builtins that must not be called. Safety check off (the claim must hold then) and on (a rejection is fine).')
RULE = ('one job per (context, first symbol); a case = one payload in one context; non-trivial = job closed over its whole sub-space, or a replayed '
        'counterexample')

SYMS = ["'", '"', '"""', '\\', '\n', '#', '{', '}', '%', 'a', '(', ')', ' ', '*', '?', '~', '+CANARY()+', "__import__('os')", '{titles}', "'+CANARY()+'", '=1+1', '=CANARY()', '>0', ' or CANARY()', '<>1 if CANARY() else 2']
CONTEXTS = ['constant', 'literal', 'criterion', 'gt_amp', 'search', 'datedif', 'title', 'countifs2']


def blank_strings(tree):
    strs = []

    class T(ast.NodeTransformer):
        def visit_Constant(self, n):
            if isinstance(n.value, str):
                strs.append(n.value)
                return ast.copy_location(ast.Constant(value='§'), n)
            return n
    t = T().visit(tree)
    return ast.dump(t), strs


def is_pattern(s):
    import re
    return bool(re.search(r'(?<![~])[?*]', s))


def _job(ctx, first, maxlen, timeout, kfs=()):
    import builtins
    from excel2pycl import Parser
    from excel2pycl.src.exceptions import E2PyclException
    d = tempfile.mkdtemp(prefix='c07_', dir=build.scratch_dir(os.path.join(os.environ.get('VERIF_PID', 'misc'), 'c07')))
    calls = []
    builtins.CANARY = lambda *a, **k: calls.append(1) or 'X'
    cache = {}

    def workbook(s):
        """sheets for payload s in this context; None if the context cannot hold s (e.g. a double quote inside a formula literal)"""
        cells = {'A1': 'zz', 'A2': 5, 'B1': 1, 'B2': 2, 'C1': 'some text', 'D1': 3, 'D2': 4}
        title = 'S'
        if ctx == 'constant':
            if s.startswith('=') or s == '':
                return None
            cells['E1'] = s
        elif ctx == 'title':
            if not s or len(s) > 31 or any(c in s for c in '\\/?*[]:') or s[0] == "'" or s[-1] == "'":
                return None          # not a legal sheet title (openpyxl / Excel refuse it)
            title = s
            cells['E1'] = '=A2+1'
        else:
            if '"' in s:
                return None          # a formula string literal cannot contain a bare double quote
            f = {'literal': f'="{s}"&"!"', 'criterion': f'=COUNTIFS(A1:A2,"{s}")', 'gt_amp': f'=SUMIF(A1:A2,">"&"{s}",B1:B2)', 'search': f'=SEARCH("{s}",C1)',
                 'datedif': f'=DATEDIF(D1,D2,"{s}")', 'countifs2': f'=COUNTIFS(A1:A2,"{s}",B1:B2,"{s}")'}[ctx]
            cells['E1'] = f
        return [(title, build.a1(cells)), ('Other', build.a1({'A1': 1}))]

    def generate(s, safety):
        wb = workbook(s)
        if wb is None:
            return ('skip',)
        p = build.write_xlsx(os.path.join(d, 'w.xlsx'), wb)
        ps = Parser().set_excel_file_path(p)
        if not safety:
            ps.disable_safety_check()
        try:
            return ('src', ps.get_translation())
        except E2PyclException as e:
            return ('rejected', type(e).__name__)
        except Exception as e:
            return ('foreign', f'{type(e).__name__}: {e}')

    def case(s, safety):
        g = generate(s, safety)
        if g[0] in ('skip', 'rejected'):
            return None
        if g[0] == 'foreign':
            return None if ctx == 'title' and 'title' in g[1].lower() else f'translation fails with a foreign exception: {g[1]}'
        src = g[1]
        try:
            tree = ast.parse(src)
        except SyntaxError as e:
            return f'the generated module does not compile: {e}'
        twin = ('z*' if is_pattern(s) else 'zz') if ctx != 'title' else 'Zz'
        import re as _re
        if ctx in ('criterion', 'countifs2', 'gt_amp') and _re.fullmatch(r'(>=|<=|<>|>|<|=)(-?\d+(\.\d+)?(e-?\d+)?)?', s):
            twin = s        # a complete operator[+number] criterion is *meant* to become a comparison: only compile / canary checks apply
        if (twin, safety) not in cache:
            gt = generate(twin, safety)
            cache[(twin, safety)] = blank_strings(ast.parse(gt[1]))[0] if gt[0] == 'src' else None
        skel, strs = blank_strings(tree)
        if cache[(twin, safety)] is not None and skel != cache[(twin, safety)]:
            return 'the generated module differs from the benign twin in more than string constants (workbook text became Python syntax)'
        # load and evaluate under the canary
        del calls[:]
        try:
            ns = {}
            exec(compile(src, 'gen_c07.py', 'exec'), ns)
            inst = ns['ExcelInPython']()
            try:
                val = inst.exec_function_in('_0_4_0')
            except Exception:
                val = None
        except Exception as e:
            return f'loading the generated module fails: {type(e).__name__}: {e}'
        if calls:
            return 'code taken from the workbook was executed (canary called)'
        if ctx == 'constant' and val != s:
            return f'constant text cell evaluates to {val!r}, stored {s!r}'
        if ctx == 'literal' and val != s + '!':
            return f'plain string literal evaluates to {val!r}, written {s + "!"!r}'
        return None

    def run(ex):
        n = z3.Int('n')
        vs = [z3.Int(f'y{i}') for i in range(maxlen)]
        safety = z3.Int('safety')
        ex.assume(z3.And(n >= 1, n <= maxlen, safety >= 0, safety <= 1))
        for v in vs:
            ex.assume(z3.And(v >= 0, v < len(SYMS)))
        ex.assume(vs[0] == first)
        nv = ex.concretize(n)
        s = ''.join(SYMS[ex.concretize(v)] for v in vs[:nv])
        sv = ex.concretize(safety)
        try:
            out = case(s, bool(sv))
        except Exception as e:
            out = f'harness exception {type(e).__name__}: {e}'
        return None if out is None else dict(text=s, safety=sv, ctx=ctx, why=out)
    def is_known(out):
        for i, e in enumerate(kfs):
            if e.get('context') == out['ctx'] and e.get('contains') and e['contains'] in out['text'] and is_pattern(out['text']):
                return f'kf{i}'         # only texts with a live (unescaped) wildcard are lexed as patterns
        return None
    r = e2.explore(run, timeout=timeout, max_failures=3, is_known=is_known)
    shutil.rmtree(d, ignore_errors=True)
    return r


def run(report, tier, seed):
    maxlen = 2 if tier == 'quick' else 3
    to = 300 if tier == 'quick' else 3000
    from vlib import findings
    kfs = findings.for_property('C07')
    jobs = [(f'{ctx}_sym{i}', _job, (ctx, i, maxlen, to, kfs)) for ctx in CONTEXTS for i in range(len(SYMS))]
    res = e2.run_jobs(jobs, NCPU, deadline=to * 2 + 60)
    agg = {}
    for name, r in sorted(res.items()):
        ctx = name.rsplit('_sym', 1)[0]
        a = agg.setdefault(ctx, dict(paths=0, secs=0.0, fails=[], bad=[]))
        if 'error' in r:
            a['bad'].append(r['error'])
            continue
        report.queries += r['queries']
        a['paths'] += r['paths']
        a['secs'] += r['secs']
        a['fails'] += [f[0] for f in r['failures']] + [v[1] for v in r.get('known', {}).values()]
        if not r['complete']:
            a['bad'].append('budget hit in ' + name)
    for ctx, a in sorted(agg.items()):
        cname = 'inert.' + ctx
        fails = a['fails']
        unknown = [f for f in fails if not any(e.get('context') == ctx and e.get('contains') and e['contains'] in f['text'] and is_pattern(f['text']) for e in kfs)]
        for e in kfs:
            hit = [f for f in fails if e.get('context') == ctx and e.get('contains') and e['contains'] in f['text'] and is_pattern(f['text'])]
            if hit:
                report.condition(cname + '#known', 'E2', 'known', 0, len(hit), e.get('what', ''))
                report.known_finding(f'context {ctx}: payload {hit[0]["text"]!r}: {hit[0]["why"]} :: {e.get("what", "")}', key=e.get('what'))
        if unknown:
            f = unknown[0]
            report.condition(cname, 'E2', 'violated', a['secs'], a['paths'], f'{f["text"]!r} (safety={f["safety"]}): {f["why"]}')
            report.violation(cname, f'context={ctx} payload={f["text"]!r} safety_check={bool(f["safety"])}', f['why'])
        elif a['bad']:
            report.condition(cname, 'E2', 'inconclusive', a['secs'], a['paths'], str(a['bad'][:2]))
        else:
            report.condition(cname, 'E2', 'holds', a['secs'], a['paths'], 'every payload of the sub-space is inert string data in this context')
            report.sample(dict(context=ctx, cases=a['paths'], secs=round(a['secs'], 1)))
    report.encoded('CellTranslator._set_cell_to_context (repr of constants)', 'LiteralToken.__init__', 'PatternToken / PatternTokenTranslator.translate',
                   'LambdaTokenTranslator.translate', 'Context.build_class (template formatting, titles)', 'Excel.parse', 'Parser._translate')
    report.bound(f'payloads: sequences of 1..{maxlen} symbols from {len(SYMS)} (quotes, backslash, newline, # {{ }} %, brackets, blank, wildcards ? * ~, a letter, and four '
                 f'multi-character attack symbols); contexts: {CONTEXTS}; safety check on and off')
    report.assume('the solver enumerates the finite payload x context space; every case runs natively on a real .xlsx',
                  'a double quote cannot occur inside a formula string literal (Excel doubles it; the doubled form is outside the family); illegal sheet titles are skipped',
                  'inertness is judged on the AST of the generated module against a benign twin; evaluation under a canary covers the cell holding the payload')
    shutil.rmtree(os.path.join(WORK, 'C07', 'c07'), ignore_errors=True)


def replay(rp):
    print(rp)
    return 0
