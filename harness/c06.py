"""C06 — translation is total: a loadable Python class or a library exception.

Decided for the parts that are code over bounded data:
  * parser core on symbolic token classes (as C05) with the assertion "no exception outside the library's hierarchy"          (E2)
  * every *accepted* path of the single-token-edit exploration of all function shapes yields a representative class sequence (z3
    model); it is spelled canonically, put in a workbook and pushed through the real Parser: the outcome must be a library
    exception or text that compiles, defines the class with the workbook's titles/sizes and one member per cell, and loads the
    same from a file and as a class object (translation itself is concrete; the symbolic part is the token-class edit)
  * concrete probes for the clauses no solver reaches (termination on a long quoted title, odd constants)             (labelled)"""
import os
import subprocess
import sys
import time

from harness import parsercore as pc
from harness.c05 import handle
from vlib import NCPU, WORK, build, e2, findings

LEVEL = 'other'
EXPLANATION = ('The real parser core on symbolic token classes (engine E2, as C05) with the assertion "only exceptions of the library hierarchy"; '
               'every accepted path of the single-token-edit exploration of all function shapes is turned (z3 model -> canonical spelling) into a '
               'workbook formula and pushed through the real Parser: library exception, or source text that compiles, defines ExcelInPython with the '
               'workbook titles/sizes and a member per translated cell, and behaves the same loaded from the written file or as a class object. '
               'Termination and exotic constants are probed concretely and labelled so.')
RULE = ('one job per (function alternative, edit mode) + one condition per distinct accepted class sequence translated; non-trivial = job closed / '
        'sequence translated with a conforming outcome, or a replayed counterexample')


def translate_outcome(text):
    """workbook with the formula through the real public API.  -> ('library', name) | ('ok',) | ('foreign', name, msg) | ('badclass', why)"""
    from excel2pycl import Executor, Parser
    from excel2pycl.src.exceptions import E2PyclException
    import tempfile
    d = tempfile.mkdtemp(prefix='c06_', dir=build.scratch_dir(os.path.join(os.environ.get('VERIF_PID', 'misc'), 'c06')))
    cells = {'A1': 1, 'A2': 2, 'A3': 3, 'B1': 4, 'B2': 5, 'B3': 6, 'C1': 'x', 'C2': 'y', 'D1': text}
    p = build.write_xlsx(os.path.join(d, 'w.xlsx'), [('S', build.a1(cells)), ('T', build.a1({'A1': 7}))])
    try:
        ps = Parser().disable_safety_check().set_excel_file_path(p)
        src = ps.get_translation()
        out = os.path.join(d, 'gen.py')
        ps.write_translation(out)
    except E2PyclException as e:
        # asking the same Parser again must give the library exception again (never the text of an earlier run, None, or a foreign error)
        for again in (lambda: ps.get_translation(), lambda: ps.write_translation(os.path.join(d, 'gen2.py'))):
            try:
                r2 = again()
                return ('badclass', f'second request after {type(e).__name__} returned {type(r2).__name__} instead of raising')
            except E2PyclException as e2_:
                if type(e2_) is not type(e):
                    return ('badclass', f'second request raised {type(e2_).__name__}, first {type(e).__name__}')
            except Exception as e2_:
                return ('foreign', type(e2_).__name__ + ' (second request)', str(e2_)[:120])
        return ('library', type(e).__name__)
    except RecursionError:
        return ('foreign', 'RecursionError', '')
    except Exception as e:
        return ('foreign', type(e).__name__, str(e)[:120])
    try:
        if ps.get_translation() != src:
            return ('badclass', 'a second request on the same Parser returns a different text')
        if open(out, encoding='utf-8').read() != src:
            return ('badclass', 'written file differs from the returned text')
        ns = {}
        exec(compile(src, 'gen_c06.py', 'exec'), ns)
        K = ns['ExcelInPython']
        inst = K()
        if inst.get_titles() != {'S': 0, 'T': 1}:
            return ('badclass', f'titles {inst.get_titles()}')
        sz = inst.get_sheets_size()
        if sz != [{'last_column': 4, 'last_row': 3}, {'last_column': 1, 'last_row': 1}]:
            return ('badclass', f'sizes {sz}')
        for u in ('_0_0_0', '_0_3_0', '_1_0_0'):
            if not callable(getattr(K, u, None)):
                return ('badclass', f'no member {u}')
        a = Executor().set_executed_class(class_object=K)
        b = Executor().set_executed_class(class_file=out)
        if a.get_executed_class().get_titles() != b.get_executed_class().get_titles():
            return ('badclass', 'file-loaded and class-object executors differ')
        # an override beyond the used area through one Executor must not leak into later users of the same class object / file
        from excel2pycl import Cell
        for route in ('class_object', 'class_file'):
            mk = (lambda: Executor().set_executed_class(class_object=K)) if route == 'class_object' else (lambda: Executor().set_executed_class(class_file=out))
            first = mk()
            first.set_cells([Cell(0, 7, 9, 5)])
            second = mk()
            sz2 = second.get_executed_class().get_sheets_size() if hasattr(second.get_executed_class(), 'get_sheets_size') else None
            if sz2 != [{'last_column': 4, 'last_row': 3}, {'last_column': 1, 'last_row': 1}] or K().get_sheets_size() != sz2:
                return ('badclass', f'sizes after an earlier Executor ({route}) grew its sheet: {sz2} / {K().get_sheets_size()}')
    except SyntaxError as e:
        return ('foreign', 'SyntaxError', str(e)[:120])
    except Exception as e:
        return ('foreign', type(e).__name__ + ' (loading)', str(e)[:120])
    return ('ok',)


class _Hang(Exception):
    pass


def bounded_outcome(text, limit=60, fn=None):
    """translate_outcome (or fn) under an alarm: a call that does not come back within `limit` seconds is reported as ('hang', limit)"""
    import signal

    def on_alarm(signum, frame):
        raise _Hang()
    old = signal.signal(signal.SIGALRM, on_alarm)
    signal.alarm(limit)
    try:
        return (fn or translate_outcome)(text)
    except _Hang:
        return ('hang', f'no result within {limit} s')
    finally:
        signal.alarm(0)
        signal.signal(signal.SIGALRM, old)


PROBE = r'''
import sys, time
sys.path.insert(0, %(verif)r)
from harness.c06 import translate_outcome
t = time.time()
print(translate_outcome(%(text)r), round(time.time() - t, 2))
'''


def timed_probe(text, limit=30):
    from vlib import VERIF
    try:
        r = subprocess.run([sys.executable, '-W', 'ignore', '-c', PROBE % dict(verif=VERIF, text=text)], capture_output=True, text=True, timeout=limit,
                           env=dict(os.environ))
        return r.stdout.strip().splitlines()[-1] if r.stdout.strip() else 'no output: ' + r.stderr[-200:]
    except subprocess.TimeoutExpired:
        return 'TIMEOUT'


def run(report, tier, seed):
    T, LEX, IDX = pc.tables()
    to = 200 if tier == 'quick' else 1500
    inst = pc.function_instances()
    modes = ['replace', 'insert', 'delete'] + (['append2'] if tier == 'thorough' else [])
    jobs = []
    for L in ([1, 2] if tier == 'quick' else [1, 2, 3]):
        for first in range(len(LEX)):
            jobs.append((f'seq_L{L}_first{first}', pc.job_sequences, (L, first, 10 ** 7, to)))
    for name, seq in inst:
        for mode in modes:
            jobs.append((f'mut_{name}_{mode}', pc.job_mutations, (name, [IDX[c] for c in seq], mode, to, True)))
    res = e2.run_jobs(jobs, NCPU, deadline=to * 2 + 120)
    handle(report, res, 'C06', ('foreign',))
    # accepted representatives -> real translation
    seqs = {}
    for name, seq in inst:
        seqs.setdefault(tuple(c.__name__ for c in seq), name)
    for name, r in res.items():
        for s in r.get('accepted', []) if isinstance(r, dict) else []:
            seqs.setdefault(tuple(s), name)
    kfs = findings.for_property('C06')
    t0 = time.time()
    outcomes = {}
    for s, origin in sorted(seqs.items()):
        text = pc.canonical_text(list(s))
        lx = bounded_outcome(text, fn=pc.replay_text)
        if lx[0] == 'hang':
            o = lx
        elif lx[1] != ['EqOperatorToken'] + list(s):
            continue          # not spellable so that the lexer reproduces the class sequence
        else:
            o = bounded_outcome(text)
        outcomes[text] = o
        cname = 'translate:' + text
        if o[0] in ('ok', 'library'):
            report.condition(cname, 'concrete', 'holds', detail=str(o))
        else:
            import re as _re
            known = [e for e in kfs if e.get('formula') == text or (e.get('formula_re') and _re.search(e['formula_re'], text))]
            if known:
                report.condition(cname, 'concrete', 'known', detail=str(o))
                report.known_finding(f'{text} -> {o} :: {known[0].get("what", "")}', key=known[0].get('what'))
            else:
                report.condition(cname, 'concrete', 'violated', detail=str(o))
                report.violation('translate_' + ''.join(ch if ch.isalnum() else '_' for ch in text)[:60], text, f'translation outcome {o}')
    report.extra['accepted_sequences_translated'] = len(outcomes)
    report.sample(dict(accepted_sequences=len(outcomes), ok=sum(1 for o in outcomes.values() if o[0] == 'ok'), library=sum(1 for o in outcomes.values() if o[0] == 'library'),
                       secs=round(time.time() - t0, 1)))
    # concrete probes (termination, odd inputs): NOT solver verdicts
    probes = ["='" + 'a' * 31 + "'!A1+1", "='" + 'b' * 40, '=SUM(Z!A1)', '="it' + "'" + 's"', '=COUNT((1))', '=A1:B', '=COUNTIFS(A1:B1,"a*",A1:B1,"b")', '=1/0', '=A1+', '=A1%B1',
              '=Total_Revenue_For_The_Fiscal_Year_2023_Q4_Grand_Total*2', '=ABCDEFGHIJKLMNOPQRSTUVWXYZABCDEFGHIJKLMN(1)', '=1' + '0' * 40 + '+A1', '=A1+' + 'Z' * 48, '=SUM(' + 'x_' * 24 + ')',
              '=' + 'A1.' * 16 + 'A1', "='" + "a'" * 20 + "'!A1", '="abc' + 'd' * 40, '=SUM(1,"x' + 'y' * 35 + ')', '=A1&"' + ' z' * 20,
              '=COUNTIFS(A1:A3,"<-05")', '=COUNTIFS(A1:A3,">=-007.50")', '=SUMIF(A1:A3,"<>-0",B1:B3)']
    # deep nesting: the cost of parsing must not explode with the depth of nested calls (30 s bound each)
    def nest(fn, depth, tail):
        f = 'A1'
        for i in range(depth):
            f = fn + '(' + tail.format(f=f, i=i) + ')'
        return '=' + f
    probes += [nest('IF', 8, 'A1>{i},{f},{i}'), nest('IF', 12, 'A1>{i},{f},{i}'), nest('SUM', 10, '{f},{i}'), nest('ROUND', 9, '{f},{i}'), nest('IFERROR', 8, '{f},{i}'),
               nest('IF', 9, 'A1>{i},{f},{i}') + '+', '=IF(A1>1,IF(A1>2,IF(A1>3,IF(A1>4,IF(A1>5,IF(A1>6,IF(A1>7,1,2),3),4),5),6),7),8,9)']
    for ptxt in probes:
        out = timed_probe(ptxt)
        ok = out.startswith("('ok'") or out.startswith("('library'")
        import re as _re
        known = [e for e in kfs if e.get('formula') == ptxt or (e.get('formula_re') and _re.search(e['formula_re'], ptxt))]
        cname = 'probe:' + ptxt
        if ok:
            report.condition(cname, 'concrete', 'holds', detail=out)
        elif known:
            report.condition(cname, 'concrete', 'known', detail=out)
            report.known_finding(f'{ptxt} -> {out} :: {known[0].get("what", "")}', key=known[0].get('what'))
        else:
            report.condition(cname, 'concrete', 'violated', detail=out)
            report.violation('probe_' + ''.join(ch if ch.isalnum() else '_' for ch in ptxt)[:50], ptxt, f'outcome {out}')
    report.encoded('AstBuilder.parse', 'EntryPointToken.get', 'CompositeBaseToken.get', 'every *_TOKEN_SETS table', 'Parser.get_translation/write_translation',
                   'all *TokenTranslator.translate reached by the accepted shapes', 'Context.build_class', 'load_module', 'Executor.set_executed_class')
    report.bound(f'{len(inst)} function alternatives x {modes} single-token edits with a symbolic class at a symbolic position; sequences of length <= {2 if tier == "quick" else 3}; '
                 'one canonical spelling per accepted class sequence is translated')
    report.assume('NOT decided by this technique: termination on arbitrary workbooks, every constant type openpyxl can deliver - only the listed concrete probes run',
                  'token values are canonical representatives (A1, A1:B2, 1, "a*", ...): translators are exercised on one spelling per accepted class sequence')


def replay(rp):
    print(rp)
    return 0
