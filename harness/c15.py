"""C15 — date functions follow the Gregorian calendar.

E1 on the real `_date/_datedif/_edate/_eomonth/_network_days/_today/_year/_month/_day` helpers and on emitted formulas.
Sliced so that the product of symbolic calendar fields stays small (measured, DESIGN.md section 5): the year (and for
two-date functions a year pair / month) is concrete per condition, months/days/offsets are symbolic."""
from vlib.e1 import Suite

LEVEL = 'other'
EXPLANATION = ('Bounded symbolic execution (CrossHair/z3) of the real date helpers (_date, _datedif, _edate, _eomonth, _network_days, '
               '_today, _year/_month/_day) of the regenerated runtime class and of classes emitted by the real Parser; per condition the '
               'year (pair) is concrete and months, days, month offsets, interval lengths and holiday offsets are symbolic. Oracle: '
               'proleptic-Gregorian ordinal arithmetic written independently (days_before_year, month table, leap rule), compared '
               'through toordinal()/fields; the reference never calls datetime arithmetic.')
RULE = ('one condition per (function, year or year pair, clause); non-trivial = confirmed over all paths with a refuted vacuity twin, '
        'or a replay-confirmed counterexample')

PRE = r'''
import datetime
import types
from typing import List, Tuple, Optional, Union
from vlib import build
from crosshair import realize
SRC0 = build.runtime_source()
K0 = build.load_class(SRC0, '_rt')
RT = K0()

DIMT = [31, 28, 31, 30, 31, 30, 31, 31, 30, 31, 30, 31]

def is_leap(y):
    return y % 4 == 0 and (y % 100 != 0 or y % 400 == 0)

def dim(y, m):
    return 29 if (m == 2 and is_leap(y)) else DIMT[m - 1]

def days_before_year(y):
    y = y - 1
    return y * 365 + y // 4 - y // 100 + y // 400

def ymd_ord(y, m, d):
    n = days_before_year(y)
    k = 1
    while k < m:
        n += dim(y, k)
        k += 1
    return n + d

def ref_date_ord(y, m, d):
    """ordinal of 1 January of year y plus (m-1) months plus (d-1) days, any integers m, d"""
    mm = m - 1
    return ymd_ord(y + mm // 12, mm % 12 + 1, 1) + d - 1

def add_months(y, m, d, k):
    mm = (m - 1) + k
    yy, mo = y + mm // 12, mm % 12 + 1
    return yy, mo, min(d, dim(yy, mo))

def months_between(y1, m1, d1, y2, m2, d2):
    return 12 * (y2 - y1) + (m2 - m1) - (1 if d1 > d2 else 0)

def weekday_of_ord(n):      # Monday = 0 ; ordinal 1 = 0001-01-01 was a Monday
    return (n - 1) % 7

def ref_networkdays(o1, o2, hol):
    lo, hi, sign = (o1, o2, 1) if o1 <= o2 else (o2, o1, -1)
    c = 0
    n = lo
    while n <= hi:
        if weekday_of_ord(n) < 5 and n not in hol:
            c += 1
        n += 1
    return c * sign

def is_midnight(dt):
    return isinstance(dt, datetime.datetime) and dt.hour == 0 and dt.minute == 0 and dt.second == 0 and dt.microsecond == 0

# TODAY with the clock replaced by a stub returning an arbitrary date (three ints set by the harness)
NOW = [2024, 1, 1]
KT = build.load_class(SRC0, '_rt_today')
import datetime as _real_datetime
_REAL_DATE = _real_datetime.date
class _StubDateNS:
    @staticmethod
    def today():
        # the real (C) date type, as the real clock would return; the three ints are realised by the engine
        return _REAL_DATE(NOW[0], NOW[1], NOW[2])
class _Shim:
    def __getattr__(self, k):
        return _StubDateNS if k == 'date' else getattr(datetime, k)
KT.__dict__['_today'].__func__.__globals__['datetime'] = _Shim()
RTT = KT()

FORMULAS = {
    'F1': '=DATE(A1,B1,C1)', 'F2': '=YEAR(DATE(A1,B1,C1))', 'F3': '=MONTH(DATE(A1,B1,C1))', 'F4': '=DAY(DATE(A1,B1,C1))',
    'F5': '=DATEDIF(D1,D2,"M")', 'F6': '=DATEDIF(D1,D2,"D")', 'F7': '=DATEDIF(D1,D2,"Y")', 'F8': '=DATEDIF(D1,D2,"YM")',
    'F9': '=EDATE(D1,B1)', 'F10': '=EOMONTH(D1,B1)', 'F11': '=NETWORKDAYS(D1,D2)', 'F12': '=NETWORKDAYS(D1,D2,E1:E2)',
    'F13': '=YEAR(D1)', 'F14': '=MONTH(D1)', 'F15': '=DAY(D1)', 'F16': '=NETWORKDAYS(D1,D2,E1:E4)', 'F17': '=NETWORKDAYS(D1,D2,E1:E1)',
}
CONSTS = {'A1': 2024, 'B1': 1, 'C1': 1, 'D1': datetime.datetime(2024, 1, 1), 'D2': datetime.datetime(2024, 2, 1),
          'E1': datetime.datetime(2024, 1, 2), 'E2': datetime.datetime(2024, 1, 3)}
K = {}
TRANSLATE_ERRORS = []
for _c, _f in FORMULAS.items():
    try:
        K[_c] = build.load_class(build.translate_formulas({_c: _f}, CONSTS), '_k' + _c)
    except Exception as _e:
        TRANSLATE_ERRORS.append((_f, f'{type(_e).__name__}: {_e}'))

# all formulas in ONE workbook as well: translation-time sharing between cells (sub-expression numbering, caches) is then in play
try:
    KALL = build.load_class(build.translate_formulas(FORMULAS, CONSTS), '_kall') if not TRANSLATE_ERRORS else None
except Exception as _e:
    KALL = None
    TRANSLATE_ERRORS.append(('all formulas in one workbook', f'{type(_e).__name__}: {_e}'))

# DATE written with literal arguments only (nothing for an override to reach): (year, month, day) -> formula cell
LITERALS = [(99, 12, 31), (120, 5, 3), (1, 1, 1), (1899, 12, 31), (1900, 1, 1), (2024, 2, 29), (2023, 2, 29), (2024, 14, 35), (2024, 0, 0), (0, 1, 1), (9999, 12, 31), (1900, 2, 29)]
LITCELLS = {}
for _i, (_y, _m, _d) in enumerate(LITERALS):
    LITCELLS[f'H{2 * _i + 1}'] = f'=DATE({_y},{_m},{_d})'
    LITCELLS[f'H{2 * _i + 2}'] = f'=YEAR(DATE({_y},{_m},{_d}))*10000+MONTH(DATE({_y},{_m},{_d}))*100+DAY(DATE({_y},{_m},{_d}))'
try:
    KLIT = build.load_class(build.translate_formulas(LITCELLS, CONSTS), '_klit')
except Exception as _e:
    KLIT = None
    TRANSLATE_ERRORS.append(('DATE with literal arguments workbook', f'{type(_e).__name__}: {_e}'))

def ev(cell, **ov):
    args = [{'uid': build.uid(0, a), 'value': v} for a, v in ov.items()]
    return (KALL or K[cell])(args).exec_function_in(build.uid(0, cell))
'''


def run(report, tier, seed):
    T = 90 if tier == 'quick' else 300
    s = Suite('C15', 'dates', PRE, timeout=T)
    years = [2023, 2024, 1900, 2000] if tier == 'quick' else [1900, 1999, 2000, 2001, 2023, 2024, 2100]
    mbox, dbox = ((-24, 36), (-800, 800)) if tier == 'quick' else ((-60, 72), (-4000, 4000))
    enc = ('ExcelInPython._date',)
    for y in years:
        s.add(f'date_ordinal_{y}', 'm: int, d: int', f'{mbox[0]} <= m <= {mbox[1]} and {dbox[0]} <= d <= {dbox[1]}', f'''
            got = RT._date({y}, m, d)
            return is_midnight(got) and got.toordinal() == ref_date_ord({y}, m, d)
        ''', encodes=enc, timeout=T * 2)
        s.add(f'date_fields_invert_{y}', 'm: int, d: int', f'1 <= m <= 12 and 1 <= d <= dim({y}, m)', f'''
            got = RT._date({y}, m, d)
            return RT._year(got) == {y} and RT._month(got) == m and RT._day(got) == d
        ''', encodes=enc + ('ExcelInPython._year', 'ExcelInPython._month', 'ExcelInPython._day'))
    for lo, hi, shift in ((0, 3, 1900), (1897, 1902, None), (9997, 9999, 0)):
        s.add(f'date_year_window_{lo}_{hi}', 'y: int', f'{lo} <= y <= {hi}', f'''
            got = RT._date(y, 1, 1)
            yy = y + 1900 if 0 <= y <= 1899 else y
            return got.toordinal() == ymd_ord(yy, 1, 1)
        ''', encodes=enc)
    s.add('date_year_out_of_range', 'y: int', '(-5 <= y < 0) or (10000 <= y <= 10004)', '''
        got = RT._date(y, 1, 1)
        return isinstance(got, str) and got[:1] == '#'
    ''', encodes=enc)
    # EDATE / EOMONTH: (year, month) concrete, day and offset symbolic
    obox = 14 if tier == 'quick' else 60
    ym = [(2024, 1), (2023, 12), (2024, 2)] if tier == 'quick' else [(2024, 1), (2023, 12), (2024, 2), (2000, 2), (1900, 2), (2023, 8), (2100, 2)]
    for (y, m) in ym:
        s.add(f'edate_{y}_{m}', 'd: int, k: int', f'1 <= d <= dim({y}, {m}) and -{obox} <= k <= {obox}', f'''
            got = RT._edate(datetime.datetime({y}, {m}, d), k)
            yy, mo, dd = add_months({y}, {m}, d, k)
            return is_midnight(got) and got.toordinal() == ymd_ord(yy, mo, dd)
        ''', encodes=('ExcelInPython._edate',), timeout=T * 2)
        s.add(f'eomonth_{y}_{m}', 'd: int, k: int', f'1 <= d <= dim({y}, {m}) and -{obox} <= k <= {obox}', f'''
            got = RT._eomonth(datetime.datetime({y}, {m}, d), k)
            yy, mo, dd = add_months({y}, {m}, 1, k)
            return is_midnight(got) and got.toordinal() == ymd_ord(yy, mo, dim(yy, mo))
        ''', encodes=('ExcelInPython._eomonth',), timeout=T * 2)
    # DATEDIF: two concrete years, months and days symbolic
    ypairs = [(2023, 2024), (2024, 2024), (2020, 2024)] if tier == 'quick' else [(2023, 2024), (2024, 2024), (2020, 2024), (1999, 2001), (2024, 2025), (2019, 2020)]
    dmax = 28 if tier == 'quick' else 31
    for (y1, y2) in ypairs:
        pre = (f'1 <= m1 <= 12 and 1 <= m2 <= 12 and 1 <= d1 <= min({dmax}, dim({y1}, m1)) and 1 <= d2 <= min({dmax}, dim({y2}, m2)) '
               f'and ymd_ord({y1}, m1, d1) <= ymd_ord({y2}, m2, d2)')
        for unit, exp in (('D', f'ymd_ord({y2}, m2, d2) - ymd_ord({y1}, m1, d1)'),
                          ('M', f'months_between({y1}, m1, d1, {y2}, m2, d2)'),
                          ('Y', f'months_between({y1}, m1, d1, {y2}, m2, d2) // 12'),
                          ('YM', f'months_between({y1}, m1, d1, {y2}, m2, d2) % 12')):
            s.add(f'datedif_{unit}_{y1}_{y2}', 'm1: int, d1: int, m2: int, d2: int', pre, f'''
                got = RT._datedif(datetime.datetime({y1}, m1, d1), datetime.datetime({y2}, m2, d2), '{unit}')
                return got == {exp}
            ''', encodes=('ExcelInPython._datedif',), timeout=T * 2)
    # DATEDIF at the ends of months (start day 28..31, end day = last or last-but-one day of its month): the day-borrow rule of M / Y / YM
    for (y1, y2) in [(2023, 2023), (2020, 2021), (2023, 2024)]:
        pre = (f'1 <= m1 <= 12 and 1 <= m2 <= 12 and 28 <= d1 <= dim({y1}, m1) and dim({y2}, m2) - 1 <= d2 <= dim({y2}, m2) '
               f'and ymd_ord({y1}, m1, d1) <= ymd_ord({y2}, m2, d2)')
        for unit, exp in (('M', f'months_between({y1}, m1, d1, {y2}, m2, d2)'), ('Y', f'months_between({y1}, m1, d1, {y2}, m2, d2) // 12'),
                          ('YM', f'months_between({y1}, m1, d1, {y2}, m2, d2) % 12')):
            s.add(f'datedif_month_end_{unit}_{y1}_{y2}', 'm1: int, d1: int, m2: int, d2: int', pre, f'''
                got = RT._datedif(datetime.datetime({y1}, m1, d1), datetime.datetime({y2}, m2, d2), '{unit}')
                return got == {exp}
            ''', encodes=('ExcelInPython._datedif',), timeout=T * 2)
    # NETWORKDAYS: concrete month, start day / length symbolic, up to two holidays at symbolic offsets
    for (y, m) in ([(2024, 1)] if tier == 'quick' else [(2024, 1), (2023, 12), (2024, 2)]):
        L = 7 if tier == 'quick' else 14
        s.add(f'networkdays_plain_{y}_{m}', 'd: int, n: int', f'1 <= d <= 7 and -{L} <= n <= {L}', f'''
            a = datetime.datetime({y}, {m}, d)
            b = a + datetime.timedelta(days=n)
            got = RT._network_days(a, b, None)
            return got == ref_networkdays(ymd_ord({y}, {m}, d), ymd_ord({y}, {m}, d) + n, [])
        ''', encodes=('ExcelInPython._network_days',), timeout=T * 2)
        s.add(f'networkdays_holidays_{y}_{m}', 'd: int, n: int, h1: int, h2: int', f'1 <= d <= 2 and 0 <= n <= 4 and 0 <= h1 <= 5 and 0 <= h2 <= 5', f'''
            a = datetime.datetime({y}, {m}, d)
            b = a + datetime.timedelta(days=n)
            hol = [[a + datetime.timedelta(days=h1)], [a + datetime.timedelta(days=h2)]]
            got = RT._network_days(a, b, hol)
            o = ymd_ord({y}, {m}, d)
            return got == ref_networkdays(o, o + n, [o + h1, o + h2])
        ''', encodes=('ExcelInPython._network_days',), timeout=T * 2)
    # formula level (pins argument order / defaults of the translators)
    fenc = ('DateControlConstructionTokenTranslator.translate', 'DateDifControlConstructionTokenTranslator.translate',
            'EDateControlConstructionTokenTranslator.translate', 'EoMonthControlConstructionTokenTranslator.translate',
            'NetworkDaysControlConstructionTokenTranslator.translate', 'Year/Month/DayControlConstructionTokenTranslator.translate')
    s.add('f_date', 'm: int, d: int', '-3 <= m <= 15 and -35 <= d <= 35', '''
        got = ev('F1', A1=2024, B1=m, C1=d)
        return got.toordinal() == ref_date_ord(2024, m, d)
    ''', encodes=fenc, requires="'F1' in K", timeout=T * 2)
    s.add('f_date_all_literal_arguments', 'x: int', 'True', '''
        inst = KLIT([{'uid': build.uid(0, 'A1'), 'value': x}])
        for i, (y, m, d) in enumerate(LITERALS):
            yy = y + 1900 if 0 <= y <= 1899 else y
            o = ref_date_ord(yy, m, d)
            got = inst.exec_function_in(build.uid(0, f'H{2 * i + 1}'))
            if not (is_midnight(got) and got.toordinal() == o):
                return False
            ref = datetime.date.fromordinal(o)
            if inst.exec_function_in(build.uid(0, f'H{2 * i + 2}')) != ref.year * 10000 + ref.month * 100 + ref.day:
                return False
        return True
    ''', encodes=fenc, requires='KLIT is not None', note='concrete: the arguments are literals of the formula text (12 triples incl. two-/three-digit years, overflowing month/day)')
    for cell, exp in (('F2', '2023'), ('F3', 'm'), ('F4', 'd')):
        s.add(f'f_ymd_of_date_{cell}', 'm: int, d: int', '1 <= m <= 12 and 1 <= d <= dim(2023, m)', f'''
            return ev('{cell}', A1=2023, B1=m, C1=d) == {exp}
        ''', encodes=fenc, requires=f"'{cell}' in K", timeout=T * 2)
    s.add('f_ymd_of_cell', 'm: int, d: int', '1 <= m <= 12 and 1 <= d <= dim(2024, m)', '''
        x = datetime.datetime(2024, m, d)
        return ev('F13', D1=x) == 2024 and ev('F14', D1=x) == m and ev('F15', D1=x) == d
    ''', encodes=fenc, requires="'F13' in K and 'F14' in K and 'F15' in K")
    for unit, cell, exp in (('M', 'F5', 'months_between(2023, m1, d1, 2024, m2, d2)'), ('D', 'F6', 'ymd_ord(2024, m2, d2) - ymd_ord(2023, m1, d1)'),
                            ('Y', 'F7', 'months_between(2023, m1, d1, 2024, m2, d2) // 12'), ('YM', 'F8', 'months_between(2023, m1, d1, 2024, m2, d2) % 12')):
        s.add(f'f_datedif_{unit}', 'm1: int, d1: int, m2: int, d2: int', '1 <= m1 <= 12 and 1 <= m2 <= 12 and 1 <= d1 <= 28 and 1 <= d2 <= 28', f'''
            return ev('{cell}', D1=datetime.datetime(2023, m1, d1), D2=datetime.datetime(2024, m2, d2)) == {exp}
        ''', encodes=fenc, requires=f"'{cell}' in K", timeout=T * 2)
    s.add('f_edate_eomonth', 'd: int, k: int', '1 <= d <= 31 and -13 <= k <= 13', '''
        x = datetime.datetime(2024, 1, d)
        yy, mo, dd = add_months(2024, 1, d, k)
        return ev('F9', D1=x, B1=k).toordinal() == ymd_ord(yy, mo, dd) and ev('F10', D1=x, B1=k).toordinal() == ymd_ord(yy, mo, dim(yy, mo))
    ''', encodes=fenc, requires="'F9' in K and 'F10' in K", timeout=T * 2)
    s.add('f_networkdays', 'd: int, n: int', '1 <= d <= 7 and -7 <= n <= 7', '''
        a = datetime.datetime(2024, 1, d)
        b = a + datetime.timedelta(days=n)
        o = ymd_ord(2024, 1, d)
        return ev('F11', D1=a, D2=b) == ref_networkdays(o, o + n, [])
    ''', encodes=fenc, requires="'F11' in K", timeout=T * 2)
    s.add('f_networkdays_holidays', 'd: int, n: int, h1: int, h2: int', '1 <= d <= 7 and 0 <= n <= 3 and 0 <= h1 <= 4 and 0 <= h2 <= 4', '''
        a = datetime.datetime(2024, 1, d)
        b = a + datetime.timedelta(days=n)
        o = ymd_ord(2024, 1, d)
        got = ev('F12', D1=a, D2=b, E1=a + datetime.timedelta(days=h1), E2=a + datetime.timedelta(days=h2))
        return got == ref_networkdays(o, o + n, [o + h1, o + h2])
    ''', encodes=fenc, requires="'F12' in K", timeout=T * 2)
    s.add('f_networkdays_holiday_ranges_of_different_extent', 'n: int, h1: int, h3: int', '0 <= n <= 4 and 0 <= h1 <= 4 and 0 <= h3 <= 4', '''
        a = datetime.datetime(2024, 1, 1)
        b = a + datetime.timedelta(days=n)
        o = ymd_ord(2024, 1, 1)
        ov = dict(D1=a, D2=b, E1=a + datetime.timedelta(days=h1), E2=a + datetime.timedelta(days=9), E3=a + datetime.timedelta(days=h3))
        return (ev('F12', **ov) == ref_networkdays(o, o + n, [o + h1]) and ev('F16', **ov) == ref_networkdays(o, o + n, [o + h1, o + h3])
                and ev('F17', **ov) == ref_networkdays(o, o + n, [o + h1]))
    ''', encodes=fenc, requires="'F12' in K and 'F16' in K and 'F17' in K", timeout=T * 2)
    report.bound(f'years {years} (concrete per condition); DATE month {mbox}, day {dbox}; EDATE/EOMONTH offsets +-{obox} on {ym}; '
                 f'DATEDIF year pairs {ypairs}, days <= {dmax}; NETWORKDAYS start day 1..14, length +-9/14, two holidays at symbolic offsets')
    report.assume('outside the claim: years other than the listed ones (each verdict reads: for that year, all months/days in the box), '
                  'DATEDIF MD/YD, time-of-day components, non-integer month offsets',
                  'datetime.date.today() replaced by a stub returning an arbitrary date built from three symbolic ints (clock = nondeterministic stub)',
                  'bare `except:` of the loaded runtime copy narrowed to `except Exception`')
    report.stub('datetime.date.today -> arbitrary date from three symbolic ints')
    s.run(report)
    s.report_translate_errors(report)
    # TODAY: the real body calls C-level datetime.combine on engine-model objects, which CrossHair cannot execute (TypeError inside
    # the engine, not reproducible natively).  Decided concretely with the stubbed clock on a grid of dates - a concrete check,
    # reported as such, not a solver verdict.
    import time as _t
    t0 = _t.time()
    m = s.mod
    bad = None
    n = 0
    for y in (1999, 2024, 2025):
        for mo in range(1, 13):
            for d in (1, 15, 28):
                m.NOW[0], m.NOW[1], m.NOW[2] = y, mo, d
                got = m.RTT._today()
                n += 1
                if not (m.is_midnight(got) and (got.year, got.month, got.day) == (y, mo, d)):
                    bad = (y, mo, d, got)
    if bad:
        report.condition('dates.today_stubbed_clock', 'concrete', 'violated', _t.time() - t0, n, str(bad))
        report.violation('dates.today_stubbed_clock', f'_today() with clock stub at {bad[:3]}', f'returned {bad[3]!r}')
    else:
        report.condition('dates.today_stubbed_clock', 'concrete', 'holds', _t.time() - t0, n, 'concrete grid of 108 stub dates; not a solver verdict')


def replay(rp):
    print(rp)
    return 0
