"""Shared machinery of C05 / C06: the real parser core (AstBuilder.parse -> EntryPointToken.get -> CompositeBaseToken.get and the
_TOKEN_SETS tables) executed on token sequences whose *classes* are symbolic (engine E2).

A token object whose __class__ is a property returning a proxy with a symbolic __eq__ makes the unmodified
`token == _expression[0].__class__` test of CompositeBaseToken.get fork on a z3 integer over all lexical classes, so the
parser splits the space of class sequences lazily into exactly the classes of sequences it can tell apart."""
import time

import z3

from vlib import e2


def tables():
    import excel2pycl.src.tokens as T
    from excel2pycl.src.tokens.regexp_base_token import RegexpBaseToken
    LEX = [c for c in RegexpBaseToken.subclasses() if c.__name__ not in ('UndefinedToken', 'WhitespaceToken')]
    IDX = {c: i for i, c in enumerate(LEX)}
    return T, LEX, IDX


class _ClsProxy:
    def __init__(self, ex, var, idx):
        self.ex, self.var, self.idx = ex, var, idx

    def __eq__(self, other):
        j = self.idx.get(other) if isinstance(other, type) else None
        if j is None:
            return False
        if isinstance(self.var, int):
            return self.var == j
        return self.ex.fork(self.var == j)

    def __ne__(self, other):
        return not self.__eq__(other)

    def __hash__(self):
        return 0


class SymTok:
    """a lexical token whose class is a z3 integer (or a concrete index)"""
    def __init__(self, ex, var, idx, n):
        self._p = _ClsProxy(ex, var, idx)
        self.value = ('x',)
        self.n = n          # position in the input sequence

    @property
    def __class__(self):
        return self._p


def leaves(tree, out):
    """input (lexical) tokens contained in a parse tree, in order: composite tokens hold a list in .value, lexical ones do not"""
    v = getattr(tree, 'value', None)
    if isinstance(v, list):
        for x in v:
            leaves(x, out)
    else:
        out.append(tree)
    return out


ACCEPTED = []        # class-name sequences of accepted parses seen by the current job (filled when COLLECT is set)
COLLECT = [False]


def classify(toks):
    """run the real AstBuilder.parse on the token list.  -> None (fine: parser exception, or a tree holding every token once, in order)
    or a description of the failure kind: ('foreign', name) | ('truncated', k) | ('none',) | ('foreign_tokens',)"""
    from excel2pycl.src.ast_builder import AstBuilder
    from excel2pycl.src.cell import Cell
    from excel2pycl.src.exceptions import E2PyclException
    try:
        tree = AstBuilder.parse(list(toks), Cell(0, 0, 0))
    except E2PyclException:
        return None
    except RecursionError:
        return ('foreign', 'RecursionError')
    except Exception as e:
        return ('foreign', type(e).__name__)
    if tree is None:
        return ('none',)
    if COLLECT[0]:
        ACCEPTED.append(True)
    got = leaves(tree, [])
    if len(got) != len(toks) or any(a is not b for a, b in zip(got, toks)):
        if all(any(a is b for b in toks) for a in got) and len(got) < len(toks):
            return ('truncated', len(toks) - len(got))
        return ('foreign_tokens',)
    return None


def job_sequences(L, first, max_paths, timeout):
    """all class sequences of length L after '=' whose first class is `first` (index) - one job per first class"""
    T, LEX, IDX = tables()
    N = len(LEX)

    prev = [None]

    def run(ex):
        vs = [z3.Int(f'c{i}') for i in range(L)]
        for v in vs:
            ex.assume(z3.And(v >= 0, v < N))
        ex.assume(vs[0] == first)
        toks = [SymTok(ex, IDX[T.EqOperatorToken], IDX, 0)] + [SymTok(ex, v, IDX, i + 1) for i, v in enumerate(vs)]
        out = classify(toks)
        m = ex.model()
        seq = [LEX[m.eval(v, model_completion=True).as_long()].__name__ for v in vs] if m is not None else []
        before, prev[0] = prev[0], seq
        if out is None:
            return None
        return dict(kind=out, classes=seq, prev=before)
    return e2.explore(run, max_paths=max_paths, timeout=timeout, max_failures=20)


def minimal(cls, IDX, depth=0):
    best = None
    for ts in cls.get_token_sets():
        seq, ok = [], True
        for t in ts:
            if t in IDX:
                seq.append(t)
            elif t is cls or depth > 6:
                ok = False
                break
            else:
                m = minimal(t, IDX, depth + 1)
                if m is None:
                    ok = False
                    break
                seq += m
        if ok and (best is None or len(seq) < len(best)):
            best = seq
    return best


def function_instances():
    """one minimal terminal expansion of every alternative of every *ControlConstructionToken._TOKEN_SETS (read from the real tables)"""
    T, LEX, IDX = tables()
    out = []
    for (c,) in T.ControlConstructionCompositeBaseToken.get_token_sets():
        for ai, ts in enumerate(c.get_token_sets()):
            seq, ok = [], True
            for t in ts:
                if t in IDX:
                    seq.append(t)
                else:
                    m = minimal(t, IDX)
                    if m is None:
                        ok = False
                        break
                    seq += m
            if ok:
                out.append((f'{c.__name__}[{ai}]', seq))
    return out


def job_mutations(name, base_idx, mode, timeout, collect=False):
    """base: list of lexical class indices (after '='); one symbolic token replaces / is inserted before / position deleted / two appended,
    the position itself symbolic"""
    T, LEX, IDX = tables()
    N = len(LEX)
    n = len(base_idx)
    accepted = []
    prev = [None]
    COLLECT[0] = collect

    def run(ex):
        pos, c, c2 = z3.Int('pos'), z3.Int('c'), z3.Int('c2')
        ex.assume(z3.And(c >= 0, c < N, c2 >= 0, c2 < N))
        if mode == 'append2':
            ex.assume(pos == n)
            p = n
        else:
            ex.assume(z3.And(pos >= 0, pos < (n + 1 if mode == 'insert' else n)))
            p = ex.concretize(pos)
        seq = []
        for i, b in enumerate(base_idx):
            if i == p and mode == 'replace':
                seq.append(c)
            elif i == p and mode == 'insert':
                seq += [c, b]
            elif i == p and mode == 'delete':
                continue
            else:
                seq.append(b)
        if mode == 'insert' and p == n:
            seq.append(c)
        if mode == 'append2':
            seq += [c, c2]
        toks = [SymTok(ex, IDX[T.EqOperatorToken], IDX, 0)] + [SymTok(ex, v, IDX, i + 1) for i, v in enumerate(seq)]
        del ACCEPTED[:]
        out = classify(toks)
        m = ex.model()
        names = []
        for v in seq:
            names.append(LEX[v].__name__ if isinstance(v, int) else (LEX[m.eval(v, model_completion=True).as_long()].__name__ if m is not None else '?'))
        before, prev[0] = prev[0], names
        if out is None:
            if ACCEPTED and len(accepted) < 60:
                accepted.append(names)
            return None
        return dict(kind=out, classes=names, instance=name, mode=mode, pos=p, prev=before)
    r = e2.explore(run, timeout=timeout, max_failures=20)
    r['accepted'] = accepted
    return r


CANON = {
    'MatrixOfCellIdentifiersToken': 'A1:B2', 'CellIdentifierRangeToken': 'A1:A3', 'CellIdentifierToken': 'A1', 'PatternToken': '"a*"', 'LiteralToken': '1',
    'BracketStartToken': '(', 'BracketFinishToken': ')', 'SeparatorToken': ',', 'NotEqOperatorToken': '<>', 'GtOrEqualOperatorToken': '>=',
    'LtOrEqualOperatorToken': '<=', 'EqOperatorToken': '=', 'GtOperatorToken': '>', 'LtOperatorToken': '<', 'PlusOperatorToken': '+', 'MinusOperatorToken': '-',
    'MultiplicationOperatorToken': '*', 'DivOperatorToken': '/', 'AmpersandToken': '&', 'PercentToken': '%',
}


def canonical_text(class_names):
    """a formula text whose lexing gives (at best) the class sequence; keyword tokens are spelled by their regexp"""
    T, LEX, IDX = tables()
    by = {c.__name__: c for c in LEX}
    parts = []
    for n in class_names:
        parts.append(CANON.get(n) or by[n].regexp)
    return '=' + ' '.join(parts)


PRELUDES = ['=SUM(1,2)+MAX(3', '=IF(A1>1,2', '=1+', '=(A1+B1', '=ROUND(A1,2,3)+1']


def replay_text(text, prelude=None):
    """native replay through the real lexer and parser (no proxies): same classification on real tokens.
    prelude: a formula parsed (and rejected) immediately before, for failures that depend on the parser's history"""
    from excel2pycl.src.cell import Cell
    from excel2pycl.src.exceptions import E2PyclException
    from excel2pycl.src.lexer import Lexer
    if prelude is not None:
        try:
            from excel2pycl.src.ast_builder import AstBuilder
            AstBuilder.parse(Lexer.parse(prelude, Cell(0, 0, 0)), Cell(0, 0, 0))
        except Exception:
            pass
    try:
        toks = Lexer.parse(text, Cell(0, 0, 0))
    except E2PyclException:
        return None, []
    except Exception as e:
        return ('foreign', type(e).__name__), []
    return classify(toks), [type(t).__name__ for t in toks]


def history_probe():
    """native: does the parse of a formula depend on a formula rejected just before it?  Run in a fresh child process.
    -> None or (prelude, text, tree_before, tree_after)"""
    from excel2pycl.src.ast_builder import AstBuilder
    from excel2pycl.src.cell import Cell
    from excel2pycl.src.lexer import Lexer

    def tree(text):
        try:
            return str(AstBuilder.parse(Lexer.parse(text, Cell(0, 0, 0)), Cell(0, 0, 0)))
        except Exception as e:
            return 'EXC ' + type(e).__name__
    texts = [canonical_text([c.__name__ for c in seq]) for _, seq in function_instances()] + ['=SUM(5,6)+B1*2', '=A1+B1*C1', '=IF(A1>1,B1,C1)&"x"']
    clean = {t: tree(t) for t in texts}
    for pre in PRELUDES:
        for t in texts:
            tree(pre)
            after = tree(t)
            if after != clean[t]:
                return (pre, t, clean[t][:300], after[:300])
    return None
