"""C08 — evaluation is pure and repeatable; all query APIs agree.

E2 on the real Executor (get_cell / get_cells / get_sheet, numeric and A1+title addressing) over the class the real Parser
emits for the three-sheet workbook of C04.  The code under test hashes every value it is given (sets of Cell objects), so
nothing stays symbolic past the first call: the solver (z3) is used to enumerate the bounded schedule space exhaustively
(DFS with blocking constraints), each schedule being executed natively against the real code."""
import time

import z3

from harness import c04
from vlib import NCPU, e2

LEVEL = 'other'
EXPLANATION = ('Bounded exhaustive exploration of the Executor query-schedule space, enumerated by z3 (DFS over integer-valued schedule variables '
               'with blocking constraints; engine E2) and executed natively on the real Executor over the class the real Parser emits for a three-'
               'sheet workbook. Schedule = one override (target among 10 kinds, value 0/1: 0 makes a formula fail), a first query, optionally the override replaced (other value, or equal value of another type), a second query (kinds: get_cell '
               'numeric / get_cell A1+title / get_cells / get_sheet by index / by title; 22 cells each), the stubbed local date advancing in between. Checked on every schedule: the last '
               'query equals the single-cell query on a fresh Executor with the same override (also after a query that raised); overrides and '
               'reported sheet sizes are unchanged by querying; the whole-sheet grid has exactly (used range extended by the override) entries. '
               'The code under test hashes all values, so no value stays symbolic: this is solver-driven enumeration, not abstraction - stated as such.')
RULE = ('one job per (override target, kind of first query); a case = one complete schedule (value, first cell, second kind, second cell); '
        'distinct_nontrivial counts jobs whose whole sub-space was closed without truncation')

PRE = c04.PRE.replace('from crosshair import realize\n', '') + r'''
import copy
from openpyxl.utils.cell import coordinate_from_string, column_index_from_string

Q8 = [0, 2, 3, 4, 8, 11, 12, 14]     # indices into QUERY: A1, B1, B2, B3, C3, A6, E1, T!B1
def _used(cells):
    rcs = [(column_index_from_string(coordinate_from_string(a)[0]), coordinate_from_string(a)[1]) for a in cells]
    return (max(c for c, _ in rcs), max(r for _, r in rcs))
USED = [_used(S), _used(T), _used(N1)]      # (last_column, last_row) of S, T and '1' in the workbook

def rc(a):
    col, row = coordinate_from_string(a)
    return row - 1, column_index_from_string(col) - 1

def expected_size(si, t1):
    lc, lr = USED[si]
    tsi, ta, _ = TARGETS[t1]
    if tsi == si:
        r, c = rc(ta)
        lc, lr = max(lc, c + 1), max(lr, r + 1)
    return lc, lr

def fresh(t1, v, qi):
    ex = Executor().set_executed_class(class_object=K)
    ex.set_cells([mkcell(TARGETS[t1][0], TARGETS[t1][1], False, v)])
    si, a = QUERY[qi]
    return outcome(lambda: ex.get_cell(mkcell(si, a, False)).value)

def do(ex, kind, qi, t1):
    si, a = QUERY[qi]
    if kind == 0:
        return outcome(lambda: ex.get_cell(mkcell(si, a, False)).value)
    if kind == 1:
        return outcome(lambda: ex.get_cell(mkcell(si, a, True)).value)
    if kind == 2:
        return outcome(lambda: ex.get_cells([mkcell(0, 'B2', True), mkcell(si, a, False)])[1].value)
    r, c = rc(a)
    lc, lr = expected_size(si, t1)
    def grid():
        g = ex.get_sheet(si if kind == 3 else TITLES[si])
        if len(g) != lr or any(len(row) != lc for row in g):
            return ('badshape', len(g), [len(row) for row in g])
        if r >= lr or c >= lc:
            return ('outside',)
        return g[r][c].value
    return outcome(grid)

def snapshot(ex):
    return (sorted((c.uid, repr(c.value)) for c in ex._cells), copy.deepcopy(ex.get_executed_class().get_sheets_size()),
            copy.deepcopy(ex._sheets_size))

# the clock of the generated class is a stub: the local date can change between two queries
import datetime as _dt
NOW = [2024, 5, 17]
class _StubDateNS:
    @staticmethod
    def today():
        return _dt.date(NOW[0], NOW[1], NOW[2])
class _Shim:
    def __getattr__(self, k):
        return _StubDateNS if k == 'date' else getattr(_dt, k)
if K is not None:
    K.__dict__['_today'].__func__.__globals__['datetime'] = _Shim()

def schedule(t1, k1, v, q1, k2, q2, w=0):
    """None when the schedule behaves, else a description"""
    NOW[2] = 17
    ex = Executor().set_executed_class(class_object=K)
    ex.set_cells([mkcell(TARGETS[t1][0], TARGETS[t1][1], bool(q1 % 2), v)])
    before = snapshot(ex)
    first = do(ex, k1, q1, t1)
    if snapshot(ex) != before:
        return f'the first query changed overrides or sizes: {before} -> {snapshot(ex)}'
    if w:
        # the override is replaced between the two queries (also right after a query that raised): by the other value, or by an equal value of another type
        v = (1 - v) if w == 1 else bool(v)
        ex.set_cells([mkcell(TARGETS[t1][0], TARGETS[t1][1], bool((q1 + 1) % 2), v)])
        before = snapshot(ex)
    NOW[2] = 18                     # midnight passes between the two queries
    got = do(ex, k2, q2, t1)
    ref = fresh(t1, v, q2)
    si, a = QUERY[q2]
    r, c = rc(a)
    lc, lr = expected_size(si, t1)
    ex2 = Executor().set_executed_class(class_object=K)        # a second executor on the same class object
    sizes2 = [(d['last_column'], d['last_row']) for d in ex2.get_executed_class().get_sheets_size()]
    if sizes2 != USED:
        return f'a new executor on the same class reports sizes {sizes2}, the workbook has {USED}'
    if snapshot(ex) != before:
        return f'querying changed overrides or sizes: {before} -> {snapshot(ex)}'
    if k2 >= 3:
        if got[0] == 'exc':
            # whole-sheet query over a sheet with a failing cell fails like the single-cell query of that cell would
            return None if fresh(t1, v, 4)[0] == 'exc' or ref[0] == 'exc' else f'get_sheet raised {got} although no cell of the sheet fails'
        if got[1] == ('outside',):
            return None if (r >= lr or c >= lc) else 'cell reported outside the grid'
        if isinstance(got[1], tuple) and got[1][:1] == ('badshape',):
            return f'grid shape {got[1][1:]} != expected {lr} rows x {lc} columns'
    if not same(got, ref):
        return f'last query gives {got}, a fresh executor gives {ref} (first query gave {first})'
    return None
'''

NS = {}


def _job(t1, k1, max_paths, timeout):
    sched = NS['schedule']
    nq = len(NS['QUERY'])

    def run(ex):
        v, q1, k2, q2, w = z3.Ints('v q1 k2 q2 w')
        ex.assume(z3.And(v >= 0, v <= 1, q1 >= 0, q1 < nq, k2 >= 0, k2 < 5, q2 >= 0, q2 < nq, w >= 0, w <= 2))
        if k1 not in (0, 3):
            ex.assume(w == 0)          # the rewrite follows a numeric single-cell query or a whole-sheet query
        ex.assume(z3.Implies(w > 0, z3.And(k2 <= 1, q2 % 2 == q1 % 2)))      # the re-written override is followed by single-cell queries (half of the cells): keeps the space near its old size
        vals = [ex.concretize(x) for x in (v, q1, k2, q2, w)]
        try:
            out = sched(t1, k1, *vals)
        except Exception as e:     # the harness itself must not raise
            out = f'harness exception {type(e).__name__}: {e}'
        return None if out is None else dict(args=[t1, k1] + vals, why=out)
    return e2.explore(run, max_paths=max_paths, timeout=timeout)


def run(report, tier, seed):
    t0 = time.time()
    exec(compile(PRE, '<c08-pre>', 'exec'), NS)
    for f, err in NS['TRANSLATE_ERRORS']:
        report.condition('translate:' + f, 'concrete', 'violated', detail=err)
        report.violation('translate', f, err)
    if NS.get('K') is None:
        return
    targets = range(len(NS['TARGETS']))
    jobs = [(f't{t1}_k{k1}', _job, (t1, k1, 10 ** 6, 240 if tier == 'quick' else 1200)) for t1 in targets for k1 in range(5)]
    res = e2.run_jobs(jobs, NCPU, deadline=600 if tier == 'quick' else 3000)
    total = 0
    for name, r in res.items():
        cname = 'schedules.' + name
        if 'error' in r:
            report.condition(cname, 'E2', 'inconclusive', detail=r['error'])
            continue
        total += r['paths']
        report.queries += r['queries']
        if r['failures']:
            f, model = r['failures'][0]
            # replay natively in the parent (no engine)
            again = NS['schedule'](*f['args'])
            if again is not None:
                report.condition(cname, 'E2', 'violated', r['secs'], r['paths'], f['why'])
                report.violation(cname, f'schedule(t1,k1,v,q1,k2,q2)={tuple(f["args"])}', again)
            else:
                report.condition(cname, 'E2', 'spurious', r['secs'], r['paths'], f['why'])
        elif r['complete']:
            report.condition(cname, 'E2', 'holds', r['secs'], r['paths'], 'all schedules of the sub-space closed')
            report.sample(dict(job=cname, schedules=r['paths'], z3_queries=r['queries'], solver_s=r['solver_s'], secs=r['secs']))
        else:
            report.condition(cname, 'E2', 'inconclusive', r['secs'], r['paths'], 'path/time budget hit before the sub-space was closed')
    report.extra['schedules_explored'] = total
    report.extra['exhaustive'] = all(c['verdict'] == 'holds' for c in report.conditions)
    report.encoded('Executor.get_cell', 'Executor.get_cells', 'Executor.get_sheet', 'Executor.set_cells', 'Executor._set_cells_to_executed_instance',
                   'handle_cell', 'Cell', 'ExcelInPython._cell_preprocessor', 'ExcelInPython.exec_function_in', 'ExcelInPython.get_sheets_size')
    report.bound('workbook of C04 (3 sheets, 17 cells); one override: 8 targets x value {0,1} x addressing style; first query: 5 kinds x 18 cells; second '
                 'query: 5 kinds x 18 cells  (8*5*2*18*5*18 = 129 600 schedules, all enumerated)')
    report.assume('outside the claim: more than two queries after the override, several overrides (C04 covers write histories), concurrency',
                  'datetime.date.today() of the generated class is a stub; the date advances by one day between the two queries',
                  'the solver enumerates the finite schedule space (every value is hashed by the code under test, so nothing can stay symbolic); '
                  'each schedule runs natively on the real code')


def replay(rp):
    print(rp)
    return 0
