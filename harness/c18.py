"""C18 — the workbook is read at true coordinates, with true types and sizes.

E2: z3 enumerates sparse layouts (one presence bit per cell of a 3x3 block on the first sheet, plus a far-away cell, plus the assignment of
value types to the present cells); every layout is written to a real .xlsx with openpyxl and pushed through the real Parser (Excel.parse,
CellTranslator, Context.build_class); on the loaded class every coordinate of a box is compared with what was planted (value and type),
together with titles and sizes.  What openpyxl does with the file is exercised for real - no stub."""
import datetime
import os
import shutil
import tempfile

import z3

from vlib import NCPU, WORK, build, e2

LEVEL = 'other'
EXPLANATION = ('Bounded exhaustive exploration of sparse workbook layouts, enumerated by z3 (presence bits of a 3x3 block, a far cell, a second sparse sheet, the <dimension> tag of the sheets exact / stale / absent, '
               'an empty third sheet; rotation of a 15-value typed family over the present cells) and executed natively: each layout is a real .xlsx '
               'written by openpyxl, translated by the real Parser, loaded, and every coordinate of a 5x5 box (plus the far cell) is evaluated: planted '
               'value with its exact type, or blank; titles in workbook order; sizes = (max stored column, max stored row); array formulas by their '
               'formula text.')
RULE = ('one job per rotation of the value family; a case = one layout; non-trivial = job closed over all 1 024 layouts (quick: one <dimension> state each; thorough: x 3 states), or a replayed counterexample')

FAMILY = [7, 0, 2.5, 0.0, True, False, 'text', 'smile \U0001F600 中', datetime.datetime(2024, 2, 29, 13, 5), -3, 1e-7,
          0.0123456789012345, 1e-16, datetime.time(12, 30, 15), datetime.timedelta(days=1, hours=6, minutes=5)]
TITLES = ['First', 'Second sheet', 'Empty']


def _job(rot, timeout, all_dims=True):
    from excel2pycl import Parser
    from openpyxl import Workbook
    from openpyxl.worksheet.formula import ArrayFormula
    d = tempfile.mkdtemp(prefix='c18_', dir=build.scratch_dir(os.path.join(os.environ.get('VERIF_PID', 'misc'), 'c18')))

    def same(got, exp):
        if exp is None or exp == '':
            # blank, or an empty text (openpyxl does not store empty strings): reads as blank
            return type(got).__name__ == 'EmptyCell'
        return type(got) is type(exp) and got == exp

    def restamp_dimension(path, mode):
        """what writers other than openpyxl/Excel leave behind: a dimension tag that does not cover the stored cells (mode 1: the constant A1; 2: tag removed)"""
        import re
        import zipfile
        tmp = path + '.tmp'
        with zipfile.ZipFile(path) as zin, zipfile.ZipFile(tmp, 'w', zipfile.ZIP_DEFLATED) as zout:
            for item in zin.infolist():
                data = zin.read(item.filename)
                if item.filename.startswith('xl/worksheets/sheet'):
                    data = re.sub(rb'<dimension ref="[^"]*"\s*/>', b'<dimension ref="A1"/>' if mode == 1 else b'', data)
                zout.writestr(item, data)
        os.replace(tmp, path)

    def case(bits, far, arr, dim=0):
        planted = {}
        k = 0
        for r in range(3):
            for c in range(3):
                if bits[r * 3 + c]:
                    planted[(0, c, r)] = FAMILY[(k + rot) % len(FAMILY)]
                    k += 1
        if far:
            planted[(0, 6, 9)] = FAMILY[(rot + 3) % len(FAMILY)]
        planted[(1, 1, 1)] = 'B2 of second'
        planted[(1, 3, 0)] = 11
        if far:
            planted[(1, 2, 2999)] = 'below a gap of 2 997 empty rows'
        wb = Workbook()
        wss = [wb.active, wb.create_sheet(), wb.create_sheet()]
        for ws, t in zip(wss, TITLES):
            ws.title = t
        for (s, c, r), v in planted.items():
            wss[s].cell(row=r + 1, column=c + 1, value=v)
        if arr:
            wss[1]['A4'] = ArrayFormula('A4:A4', '=SUM(D1:D1)+1')
        p = os.path.join(d, 'w.xlsx')
        wb.save(p)
        # what the file really stores, as plain (not read-only) openpyxl delivers it: e.g. 0.0 is stored as the number 0 and comes back as int
        from openpyxl import load_workbook
        ref = load_workbook(p)
        for (s_, c, r) in list(planted):
            planted[(s_, c, r)] = ref.worksheets[s_].cell(row=r + 1, column=c + 1).value
        ref.close()
        if dim:
            restamp_dimension(p, dim)
        try:
            src = Parser().disable_safety_check().set_excel_file_path(p).get_translation()
            ns = {}
            exec(compile(src, 'gen_c18.py', 'exec'), ns)
            inst = ns['ExcelInPython']()
        except Exception as e:
            return f'translation/loading failed: {type(e).__name__}: {e}'
        if inst.get_titles() != {t: i for i, t in enumerate(TITLES)}:
            return f'titles {inst.get_titles()}'
        stored = {k_: v for k_, v in planted.items() if v is not None and v != ''}
        if arr:
            stored[(1, 0, 3)] = 'array'
        exp_sizes = []
        for s in range(3):
            cs = [(c, r) for (s_, c, r) in stored if s_ == s]
            exp_sizes.append({'last_column': max([c for c, _ in cs], default=-1) + 1, 'last_row': max([r for _, r in cs], default=-1) + 1})
        if inst.get_sheets_size() != exp_sizes:
            return f'sizes {inst.get_sheets_size()} != {exp_sizes}'
        for s in range(3):
            for c in range(5):
                for r in range(5):
                    if arr and (s, c, r) == (1, 0, 3):
                        got = inst.exec_function_in(f'_{s}_{c}_{r}')
                        if got != 12:
                            return f'array formula cell evaluates to {got!r}, expected 12'
                        continue
                    got = inst.exec_function_in(f'_{s}_{c}_{r}')
                    if not same(got, planted.get((s, c, r))):
                        return f'cell {TITLES[s]}!({c},{r}) evaluates to {got!r} ({type(got).__name__}), planted {planted.get((s, c, r))!r}'
        if far and not same(inst.exec_function_in('_0_6_9'), planted[(0, 6, 9)]):
            return f'far cell evaluates to {inst.exec_function_in("_0_6_9")!r}, planted {planted[(0, 6, 9)]!r}'
        if far and not same(inst.exec_function_in('_1_2_2999'), planted[(1, 2, 2999)]):
            return f'cell below the row gap evaluates to {inst.exec_function_in("_1_2_2999")!r}, planted {planted[(1, 2, 2999)]!r}'
        return None

    def run(ex):
        bs = [z3.Int(f'b{i}') for i in range(9)]
        far, arr = z3.Int('far'), z3.Int('arr')
        for v in bs + [far, arr]:
            ex.assume(z3.And(v >= 0, v <= 1))
        ex.assume(arr == far)       # the array formula rides along with the far cell (keeps the space at 1 024 layouts per rotation)
        dim = z3.Int('dim')
        ex.assume(z3.And(dim >= 0, dim <= 2))
        if not all_dims:
            ex.assume(dim == (bs[0] + 2 * bs[4] + bs[8] + far + rot) % 3)      # quick tier: one tag state per layout, all three spread over the layouts
        vals = [ex.concretize(v) for v in bs + [far, arr, dim]]
        try:
            out = case(vals[:9], vals[9], vals[10], vals[11])
        except Exception as e:
            out = f'harness exception {type(e).__name__}: {e}'
        return None if out is None else dict(bits=vals, rot=rot, why=out)
    r = e2.explore(run, timeout=timeout, max_failures=3)
    shutil.rmtree(d, ignore_errors=True)
    return r


def run(report, tier, seed):
    to = 300 if tier == 'quick' else 1500
    rots = range(len(FAMILY))
    res = e2.run_jobs([(f'layouts_rot{r}', _job, (r, to, tier != 'quick')) for r in rots], NCPU, deadline=to * 2 + 60)
    for name, r in sorted(res.items()):
        cname = 'read.' + name
        if 'error' in r:
            report.condition(cname, 'E2', 'inconclusive', detail=r['error'])
            continue
        report.queries += r['queries']
        if r['failures']:
            f = r['failures'][0][0]
            report.condition(cname, 'E2', 'violated', r['secs'], r['paths'], f['why'])
            report.violation(cname, f'layout bits={f["bits"]} rotation={f["rot"]}', f['why'])       # native run on a real file
        elif not r['complete']:
            report.condition(cname, 'E2', 'inconclusive', r['secs'], r['paths'], 'budget hit')
        else:
            report.condition(cname, 'E2', 'holds', r['secs'], r['paths'], 'all layouts closed' + ('' if tier != 'quick' else ' (one <dimension> state per layout)'))
            report.sample(dict(job=cname, layouts=r['paths'], secs=r['secs']))
    report.encoded('Excel.parse', 'Excel.get_cells', 'Excel._fill_cell', 'Excel.get_titles', 'Excel.get_sheets_size', 'CellTranslator.translate_file',
                   'CellTranslator._set_cell_to_context', 'Context.build_class', 'Parser._translate')
    report.bound('3 sheets (sparse 3x3 block + far cell G10; fixed sparse second sheet with an optional array formula; empty third sheet); 1 024 layouts x 3 states of the <dimension> tag (exact, stale constant A1, absent) per rotation of an '
                 '15-value family (int, 0, float, 0.0, True, False, text, non-BMP text, date-time, negative int, small floats with 15 significant digits / 1e-16, time of day, duration); with the far cell also a cell below 2 997 empty rows on the second sheet')
    report.assume('the solver enumerates the finite layout space; every case runs natively on a real .xlsx written and read by openpyxl (no stub)',
                  'reference values are what plain (not read-only) openpyxl reads back from the same file (0.0 is stored as the number 0 -> int); empty text and a date without time are outside the family',
                  'outside the claim: more than 3 sheets, blocks larger than 3x3 (+ one far cell)')
    shutil.rmtree(os.path.join(WORK, 'C18', 'c18'), ignore_errors=True)


def replay(rp):
    print(rp)
    return 0
