"""C05 — a formula is translated whole or rejected, never silently truncated.

Group 1  the real parser core on *symbolic token classes*: every class sequence of length <= L after '='            (E2)
Group 2  every alternative of every function's _TOKEN_SETS (read from the real tables) with one symbolic token replaced /
         inserted / deleted at a symbolic position (two appended in the thorough tier)                                  (E2)
Group 4  every argument of every accepted call of every supported function (0..7 arguments, marker arguments) occurs in the emitted code (concrete survey)
Group 3  whitespace placement and ',' / ';' choice: z3-enumerated variants of concrete formulas through the real Lexer and
         translators must give the same emitted code as the canonical spelling (solver as enumerator; stated)           (E2)
Assertion on every path: AstBuilder.parse raises the library's parser exception, or returns a tree that holds every input
token exactly once and in order."""
import itertools
import time

import z3

from harness import parsercore as pc
from vlib import NCPU, e2, findings

LEVEL = 'other'
EXPLANATION = ('Symbolic execution (own explorer E2) of the real parser core - AstBuilder.parse, EntryPointToken/CompositeBaseToken.get and every '
               '_TOKEN_SETS table - on token sequences whose classes are z3 integers over all lexical classes: the unmodified code forks on '
               '`token == _expression[0].__class__` through a proxy class object, so z3 splits the space of class sequences into exactly the classes '
               'the parser distinguishes. Checked on every path: a library parser exception, or a tree containing every input token once and in order '
               '(nothing dropped, no None, no stale token from an earlier parse). Plus z3-enumerated whitespace / separator variants of concrete '
               'formulas through the real Lexer and translators.')
RULE = ('one job per (length, first class) / (function alternative, edit mode) / formula; a case = one path = one class of token sequences the parser '
        'distinguishes; non-trivial = job closed without truncation, or a counterexample replayed through the real lexer')

WS_FORMULAS = [
    ['SUM', '(', '1', ',', '2', ',', '3', ')'],
    ['IF', '(', 'A1', '>', '1', ',', '"x y"', ',', 'B1', '+', '2', ')'],
    ['ROUND', '(', 'A1', '/', '3', ';', '2', ')', '*', '2'],
    ['A1', '&', '" "', '&', 'B1'],
    ['MAX', '(', 'A1:B2', ',', '5', ')', '-', 'MIN', '(', 'A1', ';', '2', ')'],
    ['VLOOKUP', '(', 'A1', ',', 'A1:B2', ',', '2', ',', 'FALSE', ')'],
    # malformed (adjacent operands): rejected in the canonical spelling, so every whitespace variant must be rejected too
    ['SUM', '(', '1', '2', ')'],
    ['SUM', '(', 'B1', '2', ',', '3', ')'],
    ['MAX', '(', 'B1:B', '2', ',', 'C1', ')'],
]
GAPS = [' ', '  ', '\n', '\t', '']


def _merge_safe(a, b):
    """may the blank between tokens a and b be removed without gluing them into another token?"""
    return not ((a[-1].isalnum() or a[-1] in '"$') and (b[0].isalnum() or b[0] in '"$')) and not (a[-1] in '<>=' and b[0] in '<>=')


def _ws_job(fi, timeout):
    from excel2pycl.src.exceptions import E2PyclException
    from harness.c01 import translate_one
    toks = WS_FORMULAS[fi]
    n = len(toks)

    def emit(parts):
        text = '=' + ''.join(parts)
        try:
            ctx = translate_one(text)
            return ('code', ctx._cell_translations['_0_5_0'], repr(sorted(ctx._sub_cell_translations.items())))
        except E2PyclException:
            return ('rejected',)
        except Exception as e:
            return ('foreign', type(e).__name__)
    seps = [i for i, t in enumerate(toks) if t in ',;']
    base = emit([t + ' ' for t in toks[:-1]] + [toks[-1]])

    def run(ex):
        gs = [z3.Int(f'g{i}') for i in range(n - 1)]
        ss = [z3.Int(f's{i}') for i in seps]
        for i, g in enumerate(gs):
            ex.assume(z3.And(g >= 0, g < len(GAPS)))
            if not _merge_safe(toks[i], toks[i + 1]):
                ex.assume(g != 4)
        # at most two gaps differ from the single blank (keeps the space finite and small); separators free
        ex.assume(z3.Sum([z3.If(g != 0, 1, 0) for g in gs]) <= 2)
        for s_ in ss:
            ex.assume(z3.And(s_ >= 0, s_ <= 1))
        gv = [ex.concretize(g) for g in gs]
        sv = {i: ex.concretize(s_) for i, s_ in zip(seps, ss)}
        parts = []
        for i, t in enumerate(toks):
            parts.append((',;'[sv[i]] if i in sv else t) + (GAPS[gv[i]] if i < n - 1 else ''))
        got = emit(parts)
        if got == base:
            return None
        return dict(text='=' + ''.join(parts), got=got, base=base)
    return e2.explore(run, timeout=timeout, max_failures=5)


# Excel's documented argument counts (min, max, step): informational only (the grammar tables of the library define what is accepted)
# arguments that legitimately do not occur in the emitted code: (function, argument index) -> why
NOT_EMITTED = {('COLUMN', 0): 'the reference is resolved to its column number while translating',
               ('TEXT', 1): 'TEXT passes its first argument through; number formats are not implemented by the library'}
EXCEL_ARITY = {
    'ADDRESS': (2, 5, 1), 'AND': (1, 255, 1), 'AVERAGE': (1, 255, 1), 'AVERAGEIFS': (3, 255, 2), 'COLUMN': (0, 1, 1), 'COUNT': (1, 255, 1), 'COUNTBLANK': (1, 1, 1),
    'COUNTIFS': (2, 254, 2), 'CONCATENATE': (1, 255, 1), 'DAY': (1, 1, 1), 'DATE': (3, 3, 1), 'DATEDIF': (3, 3, 1), 'EDATE': (2, 2, 1), 'EOMONTH': (2, 2, 1), 'IF': (2, 3, 1),
    'IFERROR': (2, 2, 1), 'INDEX': (2, 4, 1), 'LEFT': (1, 2, 1), 'MATCH': (2, 3, 1), 'MAX': (1, 255, 1), 'MID': (3, 3, 1), 'MIN': (1, 255, 1), 'MONTH': (1, 1, 1),
    'NETWORKDAYS': (2, 3, 1), 'OR': (1, 255, 1), 'RIGHT': (1, 2, 1), 'ROUND': (2, 2, 1), 'ROUNDUP': (2, 2, 1), 'ROUNDDOWN': (2, 2, 1), 'SEARCH': (2, 3, 1), 'SUM': (1, 255, 1),
    'SUMIF': (2, 3, 1), 'SUMIFS': (3, 255, 2), 'TODAY': (0, 0, 1), 'VLOOKUP': (3, 4, 1), 'XMATCH': (2, 4, 1), 'YEAR': (1, 1, 1), 'IFS': (2, 254, 2), 'TEXT': (2, 2, 1), 'VALUE': (1, 1, 1),
}


def translate_grid(formula):
    """real Lexer -> AstBuilder -> translators on one formula cell G1 over an 8x5 block of constants (no workbook I/O); returns the class text"""
    from excel2pycl.src.cell import Cell
    from excel2pycl.src.context import Context
    from excel2pycl.src.excel import Excel
    from excel2pycl.src.translators import CellTranslator
    rows = [[10 * r + c for c in range(5)] + [None, formula if r == 0 else None] for r in range(8)]
    excel = Excel({'data': [rows], 'titles': ['S'], 'suspicious_cells': {}, 'sheets_size': [{'last_column': 7, 'last_row': 8}]})
    ctx = Context()
    ctx._titles, ctx._sheets_size = excel.get_titles(), excel.get_sheets_size()
    CellTranslator.translate(Cell(0, 6, 0), excel, ctx)
    return ctx.build_class()


def arity_survey():
    """For every supported function and every argument count 0..7 (a few argument-kind patterns per count, every argument a distinct marker: the number
    7001+i, the row area A<i>:B<i>, the cell C<i>, the criterion ">9100+i"): whenever the real lexer/parser/translators accept the call, every argument must reach the
    emitted code - an accepted argument list whose surplus arguments are silently dropped is a part of the formula that was not consumed.
    -> {function: {'accepted': [counts], 'dropped': [(formula, missing marker)]}}"""
    import re
    from excel2pycl.src.exceptions import E2PyclException
    from excel2pycl.src.tokens.regexp_base_token import KeywordRegexpBaseToken
    out = {}
    kinds = {'n': lambda i: (str(7001 + i), str(7001 + i)), 'a': lambda i: (f'A{i + 1}:B{i + 1}', f"_cell_preprocessor('_0_1_{i}')"), 'c': lambda i: (f'">{9100 + i}"', str(9100 + i)),
             'r': lambda i: (f'C{i + 1}', f"_cell_preprocessor('_0_2_{i}')")}
    for kw in KeywordRegexpBaseToken.subclasses():
        f = kw.regexp
        acc, dropped = set(), []
        for n in range(0, 8):
            pats = {'n' * n, 'a' * n, 'r' * n, ('a' + 'n' * n)[:n], ('aa' + 'n' * n)[:n], ('na' + 'n' * n)[:n], ('ra' + 'n' * n)[:n], ('ac' * 4)[:n], ('a' + 'ac' * 4)[:n], ('rn' * 4)[:n]}
            for pat in sorted(pats):
                if len(pat) != n:
                    continue
                args = [kinds[k](i) for i, k in enumerate(pat)]
                formula = f'={f}({",".join(a for a, _ in args)})'
                try:
                    src = translate_grid(formula)
                except E2PyclException:
                    continue
                except Exception:
                    acc.add(n)          # accepted by the grammar (a translator failed later: C06's subject)
                    continue
                acc.add(n)
                body = src.split('def exec_function_in')[1]
                for i, (a, marker) in enumerate(args):
                    if marker not in body and (f, i) not in NOT_EMITTED:
                        dropped.append((formula, a))
                        break
        out[f] = dict(accepted=sorted(acc), dropped=dropped[:3])
    return out


def reject_agreement():
    """concrete (labelled): every class sequence of length <= 2 over all lexical classes, spelled canonically - what the real lexer + parser reject
    must be rejected by the translation of a cell holding that text as well (a formula is never quietly emitted as something else).
    -> list of offending texts"""
    import itertools
    from excel2pycl.src.ast_builder import AstBuilder
    from excel2pycl.src.cell import Cell
    from excel2pycl.src.exceptions import E2PyclException
    from excel2pycl.src.lexer import Lexer
    T, LEX, IDX = pc.tables()
    names = [c.__name__ for c in LEX]
    bad, n = [], 0
    for L in (0, 1, 2):
        for seq in itertools.product(names, repeat=L):
            text = pc.canonical_text(list(seq))
            try:
                toks = Lexer.parse(text, Cell(0, 0, 0))
                try:
                    core = 'accepted' if AstBuilder.parse(list(toks), Cell(0, 0, 0)) is not None else 'rejected'
                except E2PyclException:
                    core = 'rejected'
                except Exception:
                    continue            # a foreign exception of the parser core is group 1's subject
            except E2PyclException:
                core = 'rejected'
            except Exception:
                continue
            n += 1
            try:
                src = translate_grid(text)
                out = 'emitted'
            except E2PyclException:
                out = 'rejected'
            except Exception:
                out = 'failed'          # accepted by the grammar, a translator failed later: C06's subject
            if core == 'rejected' and out == 'emitted':
                bad.append(text)
    return dict(bad=bad[:5], n=n)


def run(report, tier, seed):
    t0 = time.time()
    T, LEX, IDX = pc.tables()
    N = len(LEX)
    to = 200 if tier == 'quick' else 1500
    jobs = []
    Ls = [1, 2, 3] if tier == 'quick' else [1, 2, 3, 4]
    for L in Ls:
        for first in range(N):
            jobs.append((f'seq_L{L}_first{first}', pc.job_sequences, (L, first, 10 ** 7, to)))
    inst = pc.function_instances()
    modes = ['replace', 'insert', 'delete'] + (['append2'] if tier == 'thorough' else [])
    for name, seq in inst:
        for mode in modes:
            jobs.append((f'mut_{name}_{mode}', pc.job_mutations, (name, [IDX[c] for c in seq], mode, to)))
    for fi in range(len(WS_FORMULAS)):
        jobs.append((f'ws_{fi}', _ws_job, (fi, to)))
    res = e2.run_jobs(jobs, NCPU, deadline=to * 2 + 120)
    handle(report, res, 'C05', ('truncated', 'none', 'foreign_tokens', 'foreign'))
    # group 4: accepted argument lists reach the emitted code (concrete survey through the real lexer/parser/translators)
    surv = e2.run_jobs([('arity', arity_survey, ())], 1, deadline=900)['arity']
    if isinstance(surv, dict) and 'error' not in surv:
        wider = {}
        for f, r in sorted(surv.items()):
            lo, hi, step = EXCEL_ARITY.get(f, (0, 255, 1))
            extra = [n for n in r['accepted'] if not (lo <= n <= hi and (n - lo) % step == 0)]
            if extra:
                wider[f] = extra
            exempt = [k for k in NOT_EMITTED if k[0] == f]
            bad = r['dropped']
            if bad:
                report.condition(f'arity.{f}', 'concrete', 'violated', detail=f'{bad[0][0]} is accepted but its argument {bad[0][1]} does not reach the emitted code')
                report.violation(f'arity.{f}', bad[0][0], f'the call is accepted, but its argument {bad[0][1]} is dropped: it does not occur in the emitted code')
            else:
                report.condition(f'arity.{f}', 'concrete', 'holds', detail=f'accepted argument counts {r["accepted"]}; every argument of every accepted call occurs in the emitted code'
                                 + (f' (except {NOT_EMITTED[exempt[0]]})' if exempt else ''))
        report.note(f'argument counts the pinned grammar tables define beyond Excel\'s documented arity (defined by the grammar, hence inside the property): {wider}')
    else:
        report.condition('arity.survey', 'concrete', 'inconclusive', detail=str(surv)[:200])
    # group 5: rejection at parser level = rejection at translation level (concrete)
    ra = e2.run_jobs([('reject_agreement', reject_agreement, ())], 1, deadline=900)['reject_agreement']
    if isinstance(ra, dict) and 'error' not in ra:
        if ra['bad']:
            report.condition('reject.translation_level', 'concrete', 'violated', 0, ra['n'], f'rejected by the parser but emitted by the translation: {ra["bad"]}')
            report.violation('reject.translation_level', ra['bad'][0], f'the lexer/parser reject {ra["bad"][0]!r} but the translation of a cell holding it emits code instead of raising the parser exception')
        else:
            report.condition('reject.translation_level', 'concrete', 'holds', 0, ra['n'], 'every canonical class sequence of length <= 2 that the parser rejects is rejected by the cell translation as well')
    else:
        report.condition('reject.translation_level', 'concrete', 'inconclusive', detail=str(ra)[:200])
    report.extra['function_alternatives'] = len(inst)
    report.extra['lexical_classes'] = N
    report.encoded('AstBuilder.parse', 'EntryPointToken.get', 'CompositeBaseToken.get', 'RecursiveCompositeBaseToken.get_token_sets', 'every *_TOKEN_SETS table',
                   'Lexer.parse (group 3)', 'RegexpBaseToken.get (group 3)')
    report.bound(f'group 1: all sequences of {N} lexical classes of length <= {Ls[-1]} after "="; group 2: {len(inst)} function alternatives x {modes} with one '
                 f'(append2: two) symbolic token(s) at a symbolic position; group 3: {len(WS_FORMULAS)} formulas, every gap in {{1 blank, 2 blanks, newline, tab, none}} '
                 'with at most two gaps changed, every separator , or ;')
    report.assume('token *values* are not symbolic (the parser core never reads them); the lexer (characters -> tokens) is regex code in C and is only exercised on the '
                  'concrete formulas of group 3, where z3 merely enumerates the variants (stated: enumeration, not abstraction)',
                  'outside the claim: sequences longer than the bound that are not a single edit away from a function shape')


def handle(report, res, pid, kinds):
    """shared by C05 and C06: interpret job results; counterexamples are replayed through the real lexer on a canonical spelling"""
    kfs = findings.for_property(pid)
    total = 0
    history_checked = []
    for name, r in sorted(res.items()):
        cname = 'parser.' + name
        if 'error' in r:
            report.condition(cname, 'E2', 'inconclusive', detail=r['error'])
            continue
        total += r['paths']
        report.queries += r['queries']
        fails = [f[0] for f in r['failures'] if ('kind' not in f[0]) or f[0]['kind'][0] in kinds]
        if fails:
            f = fails[0]
            if 'text' in f:      # whitespace / separator variant: already a native run
                report.condition(cname, 'E2', 'violated', r['secs'], r['paths'], f'{f["text"]!r} -> {f["got"]} but the canonical spelling -> {f["base"]}')
                report.violation(cname, f['text'], f'variant gives {f["got"]}, canonical spelling gives {f["base"]}')
                continue
            if not f['classes'] or '?' in f['classes']:
                # no model for this path: the branch structure seen on replay differed from the recorded one, i.e. the parser did not behave
                # deterministically on the same token-class prefix (its result depends on earlier parses).  Native confirmation: history probe.
                if not history_checked:
                    history_checked.append(e2.run_jobs([('history', pc.history_probe, ())], 1, deadline=300)['history'])
                hp = history_checked[0]
                if isinstance(hp, tuple):
                    report.condition(cname, 'E2', 'violated', r['secs'], r['paths'], f'parse of {hp[1]!r} depends on the formula parsed before ({hp[0]!r})')
                    if len(history_checked) == 1:
                        history_checked.append('reported')
                        report.violation('parser.history', f'{hp[0]}   (rejected)   then   {hp[1]}', f'tree in a fresh process: {hp[2]} ... after the rejected formula: {hp[3]}')
                else:
                    report.condition(cname, 'E2', 'spurious', r['secs'], r['paths'], f'non-deterministic path without model; history probe found nothing ({hp})')
                continue
            text = pc.canonical_text(f['classes'])
            again, lexed = pc.replay_text(text)
            if again is None or again[0] not in kinds:
                # a failure that depends on what was parsed before: replay after a rejected formula, in a child process with fresh parser state
                for pre in ([pc.canonical_text(f['prev'])] if f.get('prev') else []) + pc.PRELUDES + [text + ' )', text + ' ) )']:
                    rr = e2.run_jobs([('replay', pc.replay_text, (text, pre))], 1, deadline=60)['replay']
                    if isinstance(rr, tuple) and rr[0] is not None and rr[0][0] in kinds:
                        again, lexed = rr
                        text = f'{pre}   (rejected)   then   {text}'
                        break
            known = [e for e in kfs if e.get('formula') == text]
            if again is not None and again[0] in kinds and lexed[-len(f['classes']):] == f['classes']:
                if known:
                    report.condition(cname, 'E2', 'known', r['secs'], r['paths'], known[0].get('what', ''))
                    report.known_finding(f'{text} -> {again} :: {known[0].get("what", "")}', key=known[0].get('what'))
                else:
                    report.condition(cname, 'E2', 'violated', r['secs'], r['paths'], f'{text} -> {again}')
                    report.violation(cname, text, f'real lexer + parser: {again} (classes {f["classes"]})')
            elif lexed != ['EqOperatorToken'] + f['classes']:
                # the class sequence cannot be spelled so that the lexer reproduces it; history effects are replayed on the proxy tokens instead
                report.condition(cname, 'E2', 'violated' if f['kind'][0] != 'foreign' or pid == 'C06' else 'inconclusive', r['secs'], r['paths'],
                                 f'{f["kind"]} on classes {f["classes"]} (not spellable for the lexer: {lexed})')
                if f['kind'][0] != 'foreign' or pid == 'C06':
                    report.violation(cname, ' '.join(f['classes']), f'parser core on token classes: {f["kind"]}')
            else:
                report.condition(cname, 'E2', 'spurious', r['secs'], r['paths'], f'{f["kind"]} on {f["classes"]} not reproduced on {text!r} ({again})')
        elif not r['complete']:
            report.condition(cname, 'E2', 'inconclusive', r['secs'], r['paths'], 'path/time budget hit before the sub-space was closed')
        else:
            report.condition(cname, 'E2', 'holds', r['secs'], r['paths'], 'every path: parser exception or complete tree')
            if r['paths'] > 50:
                report.sample(dict(job=cname, paths=r['paths'], z3_queries=r['queries'], solver_s=r['solver_s'], secs=r['secs']))
    report.extra['paths_total'] = total


def replay(rp):
    print(rp)
    return 0
