"""C11 — aggregates fold exactly the numeric cells of their arguments.

E1 through the code the real Parser emits for SUM/AVERAGE/MIN/MAX/COUNT/COUNTBLANK/AND/OR over area shapes; the contents of
the cells involved are symbolic (Union[int, bool, str, None]; None = blank), the oracle is an independent fold."""
from vlib.e1 import Suite

LEVEL = 'other'
EXPLANATION = ('Bounded symbolic execution (CrossHair/z3) of the classes the real Parser emits for aggregate formulas over area shapes (row, column, '
               'rectangle, whole column, two areas, scalar + area in either order, other sheet, area reaching below the used range, the same '
               'reference text on two sheets); the contents of the cells involved are symbolic values of Union[int, bool, str, None] (None = blank); '
               'oracle: independent fold over the planted vector (numeric = type exactly int/float; blank and "" for COUNTBLANK; truthiness for AND/OR), '
               'plus the metamorphic clause SUM(X,Y) = SUM(X)+SUM(Y).')
RULE = ('one condition per formula shape; non-trivial = confirmed over all paths with a refuted vacuity twin, or a replay-confirmed counterexample')

PRE = r'''
from typing import List, Tuple, Optional, Union
from vlib import build

V = Union[int, bool, str, None]
FORMULAS = {
    'F1': '=SUM(A1:B2)', 'F2': '=SUM(A1:A2,B1:B2)', 'F3': '=SUM(A1,B1:B2)', 'F4': '=SUM(B1:B2,A1)', 'F5': '=SUM(T!A1:A2)', 'F6': '=SUM(A:A)',
    'F7': '=SUM(A1:B2,5)', 'F8': '=SUM(A1:B12)', 'F9': '=AVERAGE(A1:B2)', 'F10': '=MIN(A1:B2)', 'F11': '=MAX(A1:B2)', 'F12': '=COUNT(A1:B2)',
    'F13': '=COUNT(A1:B2,C1)', 'F14': '=COUNTBLANK(A1:B2)', 'F15': '=COUNTBLANK(A1:B12)', 'F16': '=AND(A1,B1,C1)', 'F17': '=OR(A1,B1,C1)',
    'F18': '=SUM(A1:B1)', 'F19': '=SUM(A1:A2)', 'F20': '=SUM(A1:A2)+SUM(B1:B2)', 'F21': '=MIN(A1,B1:B2)', 'F22': '=MAX(5,A1:A2)',
    'F23': '=AVERAGE(A1,B1:B2)', 'F24': '=COUNTBLANK(A1,B1:B2)', 'F25': '=AND(A1:B1,C1)', 'F26': '=SUM(A1:B2)+SUM(T!A1:B2)', 'F27': '=SUM(A1:B2,A1:B2)', 'F28': '=AVERAGE(A1,A1,B1)', 'F29': '=COUNTBLANK(A1:B1,A1:B1)', 'F30': '=SUM(A1,A1,$A$1)',
    'F31': '=COUNT(A1:A2,B1:B2)', 'F32': '=COUNT(A1:B1,A2,B2,5)', 'F33': '=COUNT(A1:A2,B1:B2,T!A1:A2)', 'F34': '=MIN(A1:A2,B1:B2)', 'F35': '=MAX(B1:B2,A1:A2)',
    'F36': '=AVERAGE(A1:A2,B1:B2)', 'F37': '=COUNTBLANK(A1:A2,B1:B2)', 'F38': '=OR(A1:A2,B1:B2)', 'F39': '=COUNT(A1:A2,A1:A2)',
    'F40': '=SUM(U!A:A)', 'F41': '=MAX(U!A:A)', 'F42': '=SUM(U!A1:D2)', 'F43': '=U!C2+1', 'F44': '=COUNTBLANK(U!A1:D2)', 'F45': '=COUNT(U!A:A,U!D:D)',
}
S = {'A1': 1, 'A2': 2, 'B1': 3, 'B2': 4, 'C1': 7, 'A3': 9}
T = {'A1': 10, 'A2': 20, 'B1': 30, 'B2': 40, 'D1': '=SUM(A1:B2)', 'D2': '=COUNTBLANK(A1:B2)', 'D3': '=MAX(A1:B2)'}
# third sheet: a blank inside the used part of column A (A3), rows shorter than the sheet is wide (rows 2 and 4 end at column A, the sheet at D)
U = {'A1': 1, 'D1': 4, 'A2': 2, 'A4': 8}
# formula cells live in rows 1-2 (columns H..), so that the used range of sheet S stays 3 rows: areas like A1:B12 really reach below it
from openpyxl.utils import get_column_letter as _gcl
ADDR = {f'F{i}': f'{_gcl(8 + (i - 1) // 2)}{1 + (i - 1) % 2}' for i in range(1, len(FORMULAS) + 1)}
ADDR.update({'D1': 'D1', 'D2': 'D2', 'D3': 'D3'})
TRANSLATE_ERRORS = []
K = {}
for _c, _f in FORMULAS.items():
    try:
        K[_c] = build.load_class(build.translate([('S', dict(S, **{ADDR[_c]: _f})), ('T', dict(T)), ('U', dict(U))]), '_k' + _c)
    except Exception as _e:
        TRANSLATE_ERRORS.append((_f, f'{type(_e).__name__}: {_e}'))
try:
    KALL = build.load_class(build.translate([('S', dict(S, **{ADDR[c]: f for c, f in FORMULAS.items()})), ('T', dict(T)), ('U', dict(U))]), '_kall') if not TRANSLATE_ERRORS else None
except Exception as _e:
    KALL = None
    TRANSLATE_ERRORS.append(('all aggregate formulas in one workbook', f'{type(_e).__name__}: {_e}'))

RT0 = build.load_class(build.runtime_source(), '_rt0')()

def blank(k):
    return (KALL or next(iter(K.values()))).EmptyCell()

def ev(cell, sheet=0, spy_average=False, **ov):
    k = KALL or K[cell]
    args = []
    for a, v in ov.items():
        si, ref = (1, a[1:]) if a[0] == 't' else (2, a[1:]) if a[0] == 'u' else (0, a)
        args.append({'uid': build.uid(si, ref), 'value': k.EmptyCell() if v is None else v})
    inst = k(args)
    if spy_average:
        # AVERAGE is decided in two steps (symbolic division makes the solver crawl): the emitted code must hand exactly the numeric
        # cells to _average (spied here), and _average itself is checked separately on small integer lists
        inst._average = lambda lst: ('AVG', list(lst))
    return inst.exec_function_in(build.uid(sheet, ADDR[cell]))

def num(v):
    return type(v) is int or type(v) is float

def nums(vs):
    return [v for v in vs if num(v)]

def ok_text(vs):
    return all(not isinstance(v, str) or (len(v) <= 1 and v != '#') for v in vs)

def outcome(fn):
    try:
        return ('val', fn())
    except Exception as e:
        return ('exc', type(e).__name__)

def is_err(o):
    return o[0] == 'exc' or (isinstance(o[1], str) and o[1].startswith('#'))
'''


def run(report, tier, seed):
    T = 90 if tier == 'quick' else 300
    s = Suite('C11', 'agg', PRE, timeout=T)
    enc = ('SumControlConstructionTokenTranslator.translate', 'get_flatten_list', 'get_flatten_numeric_list', 'MatrixOfCellIdentifiersTokenTranslator.translate',
           'Excel.get_matrix', 'ExcelInPython._sum/_average/_min/_max/_count/_count_blank/_and/_or/_only_numeric_list/_flatten_list/_find_error_in_list')
    sig4 = 'a1: V, a2: V, b1: V, b2: V'
    pre4 = 'ok_text([a1, a2, b1, b2])'
    ov4 = 'A1=a1, A2=a2, B1=b1, B2=b2'
    vec = '[a1, a2, b1, b2]'

    def add(name, cell, expr, sig=sig4, pre=pre4, **kw):
        s.add(name, sig, pre, f'''
            got = ev('{cell}', {ov4})
            return got == ({expr})
        ''', encodes=enc, requires=f"'{cell}' in K", **kw)
    add('sum_rect', 'F1', f'sum(nums({vec}))')
    add('sum_two_areas', 'F2', f'sum(nums({vec}))')
    add('sum_scalar_then_area', 'F3', 'sum(nums([a1, b1, b2]))')
    add('sum_area_then_scalar', 'F4', 'sum(nums([b1, b2, a1]))')
    add('sum_whole_column', 'F6', 'sum(nums([a1, a2])) + 9')
    add('sum_area_and_literal', 'F7', f'sum(nums({vec})) + 5')
    add('sum_area_below_used_range', 'F8', f'sum(nums({vec})) + 9')
    add('sum_row', 'F18', 'sum(nums([a1, b1]))')
    add('sum_column', 'F19', 'sum(nums([a1, a2]))')
    add('sum_split_metamorphic', 'F20', f'sum(nums({vec}))')
    add('sum_same_area_twice', 'F27', f'2 * sum(nums({vec}))')
    add('sum_same_cell_three_spellings', 'F30', 'sum(nums([a1, a1, a1]))')
    add('countblank_same_area_twice', 'F29', 'len([v for v in [a1, b1, a1, b1] if v is None or v == ""])')
    s.add('whole_column_blank_inside_overridden', 'x: V, y: V', 'ok_text([x, y])', '''
        return (ev('F40', uA3=x, uA2=y) == sum(nums([1, y, x, 8])) and ev('F41', uA3=x, uA2=y) == max(nums([1, y, x, 8]))
                and ev('F45', uA3=x, uA2=y) == len(nums([1, y, x, 8])) + 1)
    ''', encodes=enc, requires="'F40' in K and 'F41' in K and 'F45' in K")
    s.add('area_over_rows_shorter_than_the_sheet', 'x: V, y: V', 'ok_text([x, y])', '''
        return (ev('F42', uC2=x, uB1=y) == sum(nums([1, y, 4, 2, x])) and ev('F43') == 1
                and ev('F44', uC2=x, uB1=y) == len([v for v in [y, None, None, x, None] if v is None or v == ""]))
    ''', encodes=enc, requires="'F42' in K and 'F43' in K and 'F44' in K")
    add('count_two_areas', 'F31', f'len(nums({vec}))')
    add('count_area_cells_literal', 'F32', f'len(nums({vec})) + 1')
    add('count_three_areas_other_sheet', 'F33', f'len(nums({vec})) + 2')
    add('count_same_area_twice', 'F39', 'len(nums([a1, a2])) * 2')
    add('countblank_two_areas', 'F37', f'len([v for v in {vec} if v is None or v == ""])')
    add('count_rect', 'F12', f'len(nums({vec}))')
    add('count_rect_and_cell', 'F13', f'len(nums({vec})) + 1')
    add('countblank_rect', 'F14', f'len([v for v in {vec} if v is None or v == ""])')
    add('countblank_below_used_range', 'F15', f'len([v for v in {vec} if v is None or v == ""]) + 19', timeout=T * 3)
    add('countblank_scalar_and_area', 'F24', 'len([v for v in [a1, b1, b2] if v is None or v == ""])')
    s.add('sum_other_sheet', 'a1: V, a2: V', 'ok_text([a1, a2])', '''
        return ev('F5', tA1=a1, tA2=a2) == sum(nums([a1, a2]))
    ''', encodes=enc, requires="'F5' in K")
    s.add('same_reference_text_on_two_sheets', 'a1: V, ta1: V, tb2: V', 'ok_text([a1, ta1, tb2])', '''
        b2 = 4
        ov = dict(A1=a1, tA1=ta1, tB2=tb2)
        return (ev('F1', **ov) == sum(nums([a1, 2, 3, b2])) and ev('D1', 1, **ov) == sum(nums([ta1, 20, 30, tb2]))
                and ev('F26', **ov) == sum(nums([a1, 2, 3, b2])) + sum(nums([ta1, 20, 30, tb2]))
                and ev('D2', 1, **ov) == len([v for v in [ta1, tb2] if v is None or v == ""]))
    ''', encodes=enc, requires="KALL is not None", timeout=T * 2)
    # AVERAGE / MIN / MAX: empty fold -> an error value or an exception, never a number
    for name, cell, fold, vs in (('average_rect', 'F9', None, vec), ('min_rect', 'F10', 'min(n)', vec), ('max_rect', 'F11', 'max(n)', vec),
                                 ('min_scalar_and_area', 'F21', 'min(n)', '[a1, b1, b2]'), ('average_scalar_and_area', 'F23', None, '[a1, b1, b2]'),
                                 ('average_same_cell_twice', 'F28', None, '[a1, a1, b1]'),
                                 ('min_two_areas', 'F34', 'min(n)', '[a1, a2, b1, b2]'), ('max_two_areas', 'F35', 'max(n)', '[b1, b2, a1, a2]'), ('average_two_areas', 'F36', None, '[a1, a2, b1, b2]')):
        # AVERAGE is compared through got * count == sum (no symbolic division in the oracle)
        cmp_ = f"o == ('val', {fold})" if fold else "o[0] == 'val' and o[1][0] == 'AVG' and sorted(o[1][1]) == sorted(n)"
        s.add(name, sig4, pre4, f'''
            o = outcome(lambda: ev('{cell}', spy_average={not fold}, {ov4}))
            n = nums({vs})
            if not n and {bool(fold)}:
                return is_err(o)
            return {cmp_}
        ''', encodes=enc, requires=f"'{cell}' in K", timeout=T * 2)
    s.add('average_helper_small_ints', 'xs: List[int]', 'len(xs) <= 3 and all(-3 <= x <= 3 for x in xs)', '''
        from crosshair import realize
        xs = [realize(x) for x in xs]
        o = outcome(lambda: RT0._average(xs))
        return is_err(o) if not xs else o == ('val', sum(xs) / len(xs))
    ''', encodes=enc)
    s.add('max_literal_and_area', 'a1: V, a2: V', 'ok_text([a1, a2])', '''
        return ev('F22', A1=a1, A2=a2) == max(nums([5, a1, a2]))
    ''', encodes=enc, requires="'F22' in K")
    # AND / OR over int / bool / blank operands
    B3 = 'a1: Union[int, bool, None], b1: Union[int, bool, None], c1: Union[int, bool, None]'
    s.add('and_scalars', B3, 'True', "return bool(ev('F16', A1=a1, B1=b1, C1=c1)) == (bool(a1) and bool(b1) and bool(c1))", encodes=enc, requires="'F16' in K")
    s.add('or_scalars', B3, 'True', "return bool(ev('F17', A1=a1, B1=b1, C1=c1)) == (bool(a1) or bool(b1) or bool(c1))", encodes=enc, requires="'F17' in K")
    s.add('and_area_and_scalar', B3, 'True', "return bool(ev('F25', A1=a1, B1=b1, C1=c1)) == (bool(a1) and bool(b1) and bool(c1))", encodes=enc, requires="'F25' in K")
    # floats (finite): all four cells float
    F4 = 'a1: float, b1: float'
    fpre = 'all(x == x and -1e6 < x < 1e6 for x in [a1, b1])'
    s.add('minmax_rect_floats', F4, fpre, "return ev('F10', A1=a1, B1=b1) == min(a1, 2, b1, 4) and ev('F11', A1=a1, B1=b1) == max(a1, 2, b1, 4)", encodes=enc, requires="'F10' in K and 'F11' in K")
    s.add('count_rect_floats_mixed', 'a1: float, a2: int, b1: V, b2: bool', 'a1 == a1 and ok_text([b1])', f"return ev('F12', {ov4}) == 2 + (1 if num(b1) else 0)", encodes=enc, requires="'F12' in K")
    report.bound('4 symbolic cells (A1,A2,B1,B2 of sheet S; for cross-sheet shapes 2+2) of type Union[int, bool, str(len<=1, not '#'), None]; '
                 'floats finite |x|<1e6 in separate harnesses; the other cells of the workbook are concrete')
    report.assume('outside the claim: dates inside aggregates, error-valued cells (texts starting with #), non-finite floats, text/blank operands of AND/OR, more than 4 symbolic cells',
                  'blank = the EmptyCell() of the generated class (what a never-written cell evaluates to)')
    s.run(report)
    s.report_translate_errors(report)


def replay(rp):
    print(rp)
    return 0
