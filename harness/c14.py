"""C14 — lookup and reference functions return the addressed element.

E1 (CrossHair) on the real runtime helpers of the class text regenerated from Context.build_class(), and on
classes emitted by the real Parser for formulas on a workbook (which pins the translation-time defaults)."""
from vlib.e1 import Suite

LEVEL = 'other'
EXPLANATION = ('Bounded symbolic execution (CrossHair/z3) of the real lookup helpers (_match, _xmatch, _vlookup, _index, '
               '_address) from the regenerated runtime class and of classes emitted by the real Parser for MATCH/XMATCH/'
               'VLOOKUP/INDEX/ADDRESS/COLUMN formulas; key columns, lookup values, indices and table cells are symbolic; '
               'each harness is one solver-decided condition "for all inputs in the bound the result equals an independent '
               'reference (first/last index search, last key <= value, direct indexing, bijective base-26)".')
RULE = ('one condition per (function, match mode, key kind, table shape); distinct = distinct harness; non-trivial = '
        'confirmed over all paths with a refuted vacuity twin, or a replay-confirmed counterexample')

PRE = r'''
from typing import List, Tuple, Optional, Union
from vlib import build
RT = build.load_class(build.runtime_source(), '_rt')()
NA = '#N/A'

def asc(keys):
    return all(keys[i] <= keys[i + 1] for i in range(len(keys) - 1))

def first_index(keys, v):
    for i, k in enumerate(keys):
        if k == v:
            return i
    return -1

def last_index(keys, v):
    r = -1
    for i, k in enumerate(keys):
        if k == v:
            r = i
    return r

def last_le(keys, v):
    r = -1
    for i, k in enumerate(keys):
        if k <= v:
            r = i
    return r

def colname(n):
    s = ''
    while n > 0:
        n, r = divmod(n - 1, 26)
        s = chr(65 + r) + s
    return s

# ---- formula level: a workbook through the real Parser -------------------------------------------------
FORMULAS = {
    'F1': '=MATCH(E1,A1:A4,0)',
    'F2': '=MATCH(E1,A1:A4,1)',
    'F3': '=VLOOKUP(E1,A1:B4,2,FALSE)',
    'F4': '=VLOOKUP(E1,A1:B4,2,TRUE)',
    'F5': '=VLOOKUP(E1,A1:B4,2)',
    'F6': '=XMATCH(E1,A1:A4,0,1)',
    'F7': '=XMATCH(E1,A1:A4,0,-1)',
    'F8': '=INDEX(B1:B4,MATCH(E1,A1:A4,0))',
    'F9': '=INDEX(A1:C3,E1,E2)',
    'F10': '=INDEX(A1:C1,E1)',
    'F11': '=INDEX(A1:A4,E1)',
    'F12': '=ADDRESS(E1,E2)',
    'F13': '=COLUMN(C7)',
    'F14': '=COLUMN()',
    'F15': '=COLUMN(AB3)',
    'F16': '=XMATCH(E1,A1:A4)',
    'F17': '=MATCH(E1,A1:A4)',
    'F18': '=INDEX((A1:B2,B3:C4),E1,E2,2)',
    'F19': '=VLOOKUP(E1,A1:C4,3,FALSE)',
}
CONSTS = {'A1': 1, 'A2': 2, 'A3': 3, 'A4': 4, 'B1': 11, 'B2': 12, 'B3': 13, 'B4': 14,
          'C1': 21, 'C2': 22, 'C3': 23, 'C4': 24, 'E1': 1, 'E2': 1}
K = {}
TRANSLATE_ERRORS = []
for _c, _f in FORMULAS.items():
    try:
        K[_c] = build.load_class(build.translate_formulas({_c: _f}, CONSTS), '_k' + _c)
    except Exception as _e:
        TRANSLATE_ERRORS.append((_f, f'{type(_e).__name__}: {_e}'))

# second sheet layout: blanks inside the key column (a heading row, a gap), whole-column references
FORMULAS2 = {
    'G1': '=MATCH(E1,A:A,0)',
    'G2': '=INDEX(B:B,MATCH(E1,A:A,0))',
    'G3': '=MATCH(E1,A1:A5,0)',
    'G4': '=INDEX(B:B,E1)',
    'G5': '=VLOOKUP(E1,A1:B5,2,FALSE)',
    'G6': '=XMATCH(E1,A:A,0,-1)',
}
CONSTS2 = {'A2': 5, 'A4': 7, 'A5': 9, 'B2': 52, 'B4': 54, 'B5': 55, 'E1': 5}
for _c, _f in FORMULAS2.items():
    try:
        K[_c] = build.load_class(build.translate_formulas({_c: _f}, CONSTS2), '_k' + _c)
    except Exception as _e:
        TRANSLATE_ERRORS.append((_f, f'{type(_e).__name__}: {_e}'))

# one workbook holding the identical position-dependent formula text in several columns / rows (a filled-right header row), two sheets
ROWFILL = {'B7': '=COLUMN()', 'D7': '=COLUMN()', 'AB7': '=COLUMN()', 'C8': '=ADDRESS(A1,COLUMN(),4)', 'E8': '=ADDRESS(A1,COLUMN(),4)', 'D9': '=COLUMN()+A1', 'G9': '=COLUMN()+A1'}
try:
    KFILL = build.load_class(build.translate([('S', dict(CONSTS, **ROWFILL)), ('T', {'A1': 5, 'C3': '=COLUMN()', 'F3': '=COLUMN()'})]), '_kfill')
except Exception as _e:
    KFILL = None
    TRANSLATE_ERRORS.append(('filled-right COLUMN() workbook', f'{type(_e).__name__}: {_e}'))

def evfill(sheet, cell, **ov):
    args = [{'uid': build.uid(0, a), 'value': v} for a, v in ov.items()]
    return KFILL(args).exec_function_in(build.uid(sheet, cell))

def ev(cell, **ov):
    """evaluate formula cell `cell` with overrides given as A1=value"""
    args = [{'uid': build.uid(0, a), 'value': v} for a, v in ov.items()]
    return K[cell](args).exec_function_in(build.uid(0, cell))
'''


def suite_helpers(tier):
    n = 4 if tier == 'quick' else 5
    s = Suite('C14', 'helpers', PRE, timeout=60 if tier == 'quick' else 240)
    enc = ('ExcelInPython._match', 'ExcelInPython._xmatch', 'ExcelInPython._vlookup')
    for kind, ty, extra in (('int', 'int', ''), ('str', 'str', " and all(len(k) <= 1 and all(c in 'abAB' for c in k) for k in keys) and len(v) <= 1 and all(c in 'abAB' for c in v)")):
        nn = n if kind == 'int' else 2
        eq = 'k == v' if kind == 'int' else 'k.lower() == v.lower()'
        s.add(f'match_exact_{kind}', f'keys: List[{ty}], v: {ty}', f'len(keys) <= {nn}{extra}', f'''
            got = RT._match(v, [[k] for k in keys], 0)
            idx = [i for i, k in enumerate(keys) if {eq}]
            return got == ((idx[0] + 1) if idx else NA)
        ''', encodes=enc)
        s.add(f'xmatch_exact_first_{kind}', f'keys: List[{ty}], v: {ty}', f'len(keys) <= {nn}{extra}', f'''
            got = RT._xmatch(v, [[k] for k in keys], 0, 1)
            idx = [i for i, k in enumerate(keys) if {eq}]
            return got == ((idx[0] + 1) if idx else NA)
        ''', encodes=enc)
        s.add(f'xmatch_exact_last_{kind}', f'keys: List[{ty}], v: {ty}', f'len(keys) <= {nn}{extra}', f'''
            got = RT._xmatch(v, [[k] for k in keys], 0, -1)
            idx = [i for i, k in enumerate(keys) if {eq}]
            return got == ((idx[-1] + 1) if idx else NA)
        ''', encodes=enc)
    s.add('match_approx_int', 'keys: List[int], v: int', f'len(keys) <= {n} and asc(keys)', '''
        got = RT._match(v, [[k] for k in keys], 1)
        r = last_le(keys, v)
        return got == ((r + 1) if r >= 0 else NA)
    ''', encodes=enc)
    s.add('vlookup_exact_int', 'keys: List[int], vals: List[int], v: int', f'len(keys) <= {n} and len(vals) == len(keys)', '''
        got = RT._vlookup(v, [[k, w] for k, w in zip(keys, vals)], 2, False)
        i = first_index(keys, v)
        return got == (vals[i] if i >= 0 else NA)
    ''', encodes=enc)
    s.add('vlookup_approx_int', 'keys: List[int], vals: List[int], v: int', f'len(keys) <= {n} and len(vals) == len(keys) and asc(keys)', '''
        got = RT._vlookup(v, [[k, w] for k, w in zip(keys, vals)], 2, True)
        r = last_le(keys, v)
        return got == (vals[r] if r >= 0 else NA)
    ''', encodes=enc)
    s.add('vlookup_exact_str', 'keys: List[str], vals: List[int], v: str',
          'len(keys) <= 3 and len(vals) == len(keys) and all(len(k) <= 2 for k in keys) and len(v) <= 2', '''
        got = RT._vlookup(v, [[k, w] for k, w in zip(keys, vals)], 2, False)
        i = first_index(keys, v)
        return got == (vals[i] if i >= 0 else NA)
    ''', encodes=enc)
    s.add('vlookup_result_column', 'keys: List[int], v: int, col: int', f'1 <= len(keys) <= {n} and 1 <= col <= 3', '''
        table = [[k, 100 + i, 200 + i] for i, k in enumerate(keys)]
        got = RT._vlookup(v, table, col, False)
        i = first_index(keys, v)
        return got == (table[i][col - 1] if i >= 0 else NA)
    ''', encodes=enc)
    # INDEX over shapes: matrix given as the emitted code gives it (list of rows)
    s.add('index_matrix', 'r: int, c: int', '1 <= r <= 4 and 1 <= c <= 4', '''
        m = [[11, 12, 13], [21, 22, 23]]
        got = RT._index(m, r, c, 1)
        exp = m[r - 1][c - 1] if r <= 2 and c <= 3 else '#REF!'
        return got == exp
    ''', encodes=('ExcelInPython._index',))
    s.add('index_row_vector', 'i: int', '1 <= i <= 5', '''
        got = RT._index([[11, 12, 13]], i, None, 1)
        return got == ([11, 12, 13][i - 1] if i <= 3 else '#REF!')
    ''', encodes=('ExcelInPython._index',))
    s.add('index_col_vector', 'i: int', '1 <= i <= 5', '''
        got = RT._index([[11], [12], [13]], i, None, 1)
        return got == ([11, 12, 13][i - 1] if i <= 3 else '#REF!')
    ''', encodes=('ExcelInPython._index',))
    s.add('index_areas', 'r: int, c: int, a: int', '1 <= r <= 2 and 1 <= c <= 2 and 1 <= a <= 3', '''
        areas = ([[1, 2], [3, 4]], [[5, 6], [7, 8]])
        got = RT._index(areas, r, c, a)
        return got == (areas[a - 1][r - 1][c - 1] if a <= 2 else '#REF!')
    ''', encodes=('ExcelInPython._index',))
    s.add('index_match_compose', 'keys: List[int], vals: List[int], v: int',
          f'1 <= len(keys) <= {n} and len(vals) == len(keys) and v in keys', '''
        pos = RT._match(v, [[k] for k in keys], 0)
        got = RT._index([[w] for w in vals], pos, None, 1)
        return got == vals[first_index(keys, v)]
    ''', encodes=('ExcelInPython._index', 'ExcelInPython._match'))
    chunks = [(1, 26), (27, 364), (365, 702)]
    if tier == 'thorough':
        chunks += [(lo, min(lo + 652, 16384)) for lo in range(703, 16385, 653)]
    for lo, hi in chunks:
        s.add(f'address_cols_{lo}_{hi}', 'col: int', f'{lo} <= col <= {hi}', """
            return RT._address(7, col) == '$' + colname(col) + '$7' and RT._address(1048576, col) == '$' + colname(col) + '$1048576'
        """, encodes=('ExcelInPython._address',))
    s.add('address_rows', 'row: int', '1 <= row <= 1048576', """
        return RT._address(row, 28) == '$AB$' + str(row)
    """, encodes=('ExcelInPython._address',))
    return s


def suite_formulas(tier):
    s = Suite('C14', 'formulas', PRE, timeout=60 if tier == 'quick' else 240)
    enc = ('MatchControlConstructionTokenTranslator.translate', 'XMatchControlConstructionTokenTranslator.translate',
           'VlookupControlConstructionTokenTranslator.translate', 'IndexControlConstructionTokenTranslator.translate',
           'emitted cell methods via exec_function_in')
    keys = 'a1: int, a2: int, a3: int, a4: int, v: int'
    ksl = '[a1, a2, a3, a4]'
    _add = s.add

    def add(name, sig, pre, body, **kw):
        import re
        cells = sorted(set(re.findall(r"ev\('([FG]\d+)'", body)))
        req = ' and '.join(f"'{c}' in K" for c in cells) or None
        if 'requires' in kw:
            req = kw.pop('requires') + (' and ' + req if req else '')
        _add(name, sig, pre, body, requires=req, **kw)
    s.add = add
    s.add('f_match_exact', keys, "True", f'''
        ks = {ksl}
        got = ev('F1', A1=a1, A2=a2, A3=a3, A4=a4, E1=v)
        i = first_index(ks, v)
        return got == ((i + 1) if i >= 0 else NA)
    ''', encodes=enc)
    s.add('f_match_approx', keys, f"asc({ksl})", f'''
        ks = {ksl}
        got = ev('F2', A1=a1, A2=a2, A3=a3, A4=a4, E1=v)
        r = last_le(ks, v)
        return got == ((r + 1) if r >= 0 else NA)
    ''', encodes=enc)
    s.add('f_match_default_type', keys, f"asc({ksl})", f'''
        ks = {ksl}
        got = ev('F17', A1=a1, A2=a2, A3=a3, A4=a4, E1=v)
        r = last_le(ks, v)
        return got == ((r + 1) if r >= 0 else NA)
    ''', encodes=enc)
    s.add('f_vlookup_exact', keys + ', b1: int, b2: int, b3: int, b4: int', "True", f'''
        ks = {ksl}
        got = ev('F3', A1=a1, A2=a2, A3=a3, A4=a4, B1=b1, B2=b2, B3=b3, B4=b4, E1=v)
        i = first_index(ks, v)
        return got == ([b1, b2, b3, b4][i] if i >= 0 else NA)
    ''', encodes=enc)
    for cell, nm in (('F4', 'true'), ('F5', 'omitted')):
        s.add(f'f_vlookup_approx_{nm}', keys, f"asc({ksl})", f'''
            ks = {ksl}
            got = ev('{cell}', A1=a1, A2=a2, A3=a3, A4=a4, E1=v)
            r = last_le(ks, v)
            return got == ([11, 12, 13, 14][r] if r >= 0 else NA)
        ''', encodes=enc)
    s.add('f_vlookup_col3', keys, "True", f'''
        ks = {ksl}
        got = ev('F19', A1=a1, A2=a2, A3=a3, A4=a4, E1=v)
        i = first_index(ks, v)
        return got == ([21, 22, 23, 24][i] if i >= 0 else NA)
    ''', encodes=enc)
    s.add('f_xmatch_first', keys, "True", f'''
        ks = {ksl}
        got = ev('F6', A1=a1, A2=a2, A3=a3, A4=a4, E1=v)
        i = first_index(ks, v)
        return got == ((i + 1) if i >= 0 else NA)
    ''', encodes=enc)
    s.add('f_xmatch_last', keys, "True", f'''
        ks = {ksl}
        got = ev('F7', A1=a1, A2=a2, A3=a3, A4=a4, E1=v)
        i = last_index(ks, v)
        return got == ((i + 1) if i >= 0 else NA)
    ''', encodes=enc)
    s.add('f_xmatch_defaults', keys, "True", f'''
        ks = {ksl}
        got = ev('F16', A1=a1, A2=a2, A3=a3, A4=a4, E1=v)
        i = first_index(ks, v)
        return got == ((i + 1) if i >= 0 else NA)
    ''', encodes=enc)
    s.add('f_index_match', keys + ', b1: int, b2: int, b3: int, b4: int', f"v in {ksl}", f'''
        ks = {ksl}
        got = ev('F8', A1=a1, A2=a2, A3=a3, A4=a4, B1=b1, B2=b2, B3=b3, B4=b4, E1=v)
        return got == [b1, b2, b3, b4][first_index(ks, v)]
    ''', encodes=enc)
    s.add('f_index_rc', 'r: int, c: int, x: int', "1 <= r <= 4 and 1 <= c <= 4", '''
        got = ev('F9', E1=r, E2=c, B2=x)
        m = [[1, 11, 21], [2, x, 22], [3, 13, 23]]
        return got == (m[r - 1][c - 1] if r <= 3 and c <= 3 else '#REF!')
    ''', encodes=enc)
    s.add('f_index_row', 'i: int', "1 <= i <= 4", '''
        got = ev('F10', E1=i)
        return got == ([1, 11, 21][i - 1] if i <= 3 else '#REF!')
    ''', encodes=enc)
    s.add('f_index_col', 'i: int', "1 <= i <= 5", '''
        got = ev('F11', E1=i)
        return got == ([1, 2, 3, 4][i - 1] if i <= 4 else '#REF!')
    ''', encodes=enc)
    s.add('f_index_area2', 'r: int, c: int', "1 <= r <= 2 and 1 <= c <= 2", '''
        got = ev('F18', E1=r, E2=c)
        return got == [[13, 23], [14, 24]][r - 1][c - 1]
    ''', encodes=enc)
    for lo, hi in ((1, 26), (677, 728), (16300, 16384)):
        s.add(f'f_address_cols_{lo}_{hi}', 'col: int', f'{lo} <= col <= {hi}', """
            return ev('F12', E1=7, E2=col) == '$' + colname(col) + '$7'
        """, encodes=enc + ('AddressControlConstructionTokenTranslator.translate',))
    gk = 'a2: int, a4: int, a5: int, v: int'
    s.add('g_match_wholecol_gaps', gk, 'True', '''
        ks = [None, a2, None, a4, a5]
        got = ev('G1', A2=a2, A4=a4, A5=a5, E1=v)
        idx = [i for i, k in enumerate(ks) if k is not None and k == v]
        return got == ((idx[0] + 1) if idx else NA)
    ''', encodes=enc + ('Excel.get_matrix', 'Excel._get_vertical_range'))
    s.add('g_match_range_gaps', gk, 'True', '''
        ks = [None, a2, None, a4, a5]
        got = ev('G3', A2=a2, A4=a4, A5=a5, E1=v)
        idx = [i for i, k in enumerate(ks) if k is not None and k == v]
        return got == ((idx[0] + 1) if idx else NA)
    ''', encodes=enc)
    s.add('g_xmatch_last_wholecol_gaps', gk, 'True', '''
        ks = [None, a2, None, a4, a5]
        got = ev('G6', A2=a2, A4=a4, A5=a5, E1=v)
        idx = [i for i, k in enumerate(ks) if k is not None and k == v]
        return got == ((idx[-1] + 1) if idx else NA)
    ''', encodes=enc)
    s.add('g_index_match_wholecol_gaps', gk + ', b2: int, b4: int, b5: int', 'v in [a2, a4, a5]', '''
        ks = [None, a2, None, a4, a5]
        got = ev('G2', A2=a2, A4=a4, A5=a5, B2=b2, B4=b4, B5=b5, E1=v)
        i = [i for i, k in enumerate(ks) if k is not None and k == v][0]
        return got == [None, b2, None, b4, b5][i]
    ''', encodes=enc)
    s.add('g_index_wholecol', 'r: int, b2: int, b4: int, b5: int', '1 <= r <= 6', '''
        got = ev('G4', B2=b2, B4=b4, B5=b5, E1=r)
        col = [0, b2, 0, b4, b5]
        return got == (col[r - 1] if r <= 5 else '#REF!')
    ''', encodes=enc, note='blank cells read as EmptyCell, which equals 0')
    s.add('g_vlookup_gaps', gk + ', b2: int, b4: int, b5: int', 'v != 0', '''
        ks = [None, a2, None, a4, a5]
        got = ev('G5', A2=a2, A4=a4, A5=a5, B2=b2, B4=b4, B5=b5, E1=v)
        idx = [i for i, k in enumerate(ks) if k is not None and k == v]
        return got == ([None, b2, None, b4, b5][idx[0]] if idx else NA)
    ''', encodes=enc)
    s.add('f_column_same_text_in_several_cells', 'x: int', "1 <= x <= 1048576", '''
        return ([evfill(0, c, A1=x) for c in ('B7', 'D7', 'AB7')] == [2, 4, 28] and [evfill(1, c) for c in ('C3', 'F3')] == [3, 6]
                and [evfill(0, c, A1=x) for c in ('D9', 'G9')] == [4 + x, 7 + x] and [evfill(0, c, A1=x) for c in ('C8', 'E8')] == ['C' + str(x), 'E' + str(x)])
    ''', encodes=('ColumnControlConstructionTokenTranslator.translate', 'CellTranslator._set_cell_to_context'), requires='KFILL is not None')
    s.add('f_column', 'x: int', "True", '''
        return ev('F13', A1=x) == 3 and ev('F14', A1=x) == 6 and ev('F15', A1=x) == 28
    ''', encodes=('ColumnControlConstructionTokenTranslator.translate',))
    return s


def long_tables(report, tier):
    """grid (labelled, not a solver verdict): lookups on sorted key columns of 16-18 rows with runs of equal keys - longer than anything the symbolic
    harnesses hold.  Keys = running sums of 0/1 steps (every step pattern with at most `maxones` ones), every lookup value from below the first to
    above the last key.  VLOOKUP approximate / exact, MATCH 1 / 0, XMATCH 0 from both ends against an independent scan."""
    import itertools
    import time
    from vlib import build
    t0 = time.time()
    RT = build.load_class(build.runtime_source(), '_rt_c14long', narrow=False)()
    bad = None
    n_cases = 0
    for n in (16, 17, 18):
        for ones in range(0, 4 if tier == 'quick' else 5):
            for pos in itertools.combinations(range(1, n), ones):
                keys, k = [], 3
                for i in range(n):
                    if i in pos:
                        k += 1
                    keys.append(k)
                table = [[key, 100 + i] for i, key in enumerate(keys)]
                col = [[key] for key in keys]
                for v in range(2, keys[-1] + 2):
                    le = [i for i, key in enumerate(keys) if key <= v]
                    eq = [i for i, key in enumerate(keys) if key == v]
                    checks = (
                        ('_vlookup approximate', lambda: RT._vlookup(v, table, 2, True), 100 + le[-1] if le else '#N/A'),
                        ('_vlookup exact', lambda: RT._vlookup(v, table, 2, False), 100 + eq[0] if eq else '#N/A'),
                        ('_match exact', lambda: RT._match(v, col, 0), eq[0] + 1 if eq else '#N/A'),
                        ('_match approximate', lambda: RT._match(v, col, 1), le[-1] + 1 if le else '#N/A'),
                        ('_xmatch first', lambda: RT._xmatch(v, col, 0, 1), eq[0] + 1 if eq else '#N/A'),
                        ('_xmatch last', lambda: RT._xmatch(v, col, 0, -1), eq[-1] + 1 if eq else '#N/A'),
                    )
                    for name, fn, exp in checks:
                        n_cases += 1
                        try:
                            got = fn()
                        except Exception as e:
                            got = f'{type(e).__name__}: {e}'
                        if got != exp and bad is None:
                            bad = f'{name} of {v} in keys {keys} = {got!r}, expected {exp!r}'
                if bad:
                    break
            if bad:
                break
        if bad:
            break
    if bad:
        report.condition('helpers.long_sorted_tables', 'grid', 'violated', time.time() - t0, n_cases, bad)
        report.violation('helpers.long_sorted_tables', bad.split(' = ')[0], bad)
    else:
        report.condition('helpers.long_sorted_tables', 'grid', 'holds', time.time() - t0, n_cases, 'sorted key columns of 16-18 rows with duplicate runs: every lookup agrees with an independent scan (enumeration, not a solver verdict)')


def run(report, tier, seed):
    long_tables(report, tier)
    report.bound(f'key columns: List[int] len<={4 if tier == "quick" else 5}, List[str] len<=3 of ASCII strings len<=2; ints unbounded')
    report.bound('formula level: 4-row key/value columns A1:B4 (every cell a symbolic int override), INDEX over 3x3 / 1x3 / 4x1 / two 2x2 areas')
    report.bound('ADDRESS: 1<=col<=16384, 1<=row<=1048576')
    report.assume('outside the claim: wildcard XMATCH, binary-search modes, mixed-type key columns, horizontal lookup vectors, '
                  'non-ASCII text keys, key columns longer than the bound')
    report.assume('bare `except:` of the loaded runtime copy narrowed to `except Exception` (engine control exceptions)')
    for s in (suite_helpers(tier), suite_formulas(tier)):
        s.run(report)
    s.report_translate_errors(report)


def replay(rp):
    print(rp)
    return 0
