"""C16 — rounding and percent are decimal-exact.

E2 with IEEE-754 proxies (z3 Float64, RNE) through the real `_roundup/_rounddown/_round` bodies of the regenerated runtime
class: the decimal input is (sign, M, s) with M a bit-vector and x = fp.div(RNE, M, 10^s) (the double nearest to the decimal,
both being exact integers); scale s and digit count n are enumerated (they fix the constants 10^s, 10^n).  Oracle: integer
arithmetic on (M, s, n) with the stated rounding mode, converted back by one correctly rounded operation."""
import math
import time

import z3

from vlib import NCPU, build, e2, findings

LEVEL = 'other'
EXPLANATION = ('Bit-precise symbolic execution (own explorer E2, z3 Float64/RNE proxies implementing __mul__/__truediv__/__ceil__/__floor__/comparisons) '
               'of the real _roundup/_rounddown/_round bodies of the regenerated runtime class. Input: sign x decimal mantissa M (bit-vector) / 10^s; '
               'per (function, sign, s, n) the solver decides "result == nearest double of the exactly rounded decimal" on the complement of the '
               'known-finding region (must be unsat), and a weaker one-unit bound inside it. _round: the body must be exactly round(number, int(digits)) '
               '(decided structurally on a recording proxy); if it is anything else it is encoded like the other two against the half-away-from-zero oracle.')
RULE = ('one job per (function, sign, scale s, digit count n); non-trivial = every path closed with unsat for the exactness query outside the known region, '
        'or a sat model replayed natively')

F64, RNE, RTP, RTN, RTZ = z3.Float64(), z3.RNE(), z3.RTP(), z3.RTN(), z3.RTZ()


def fpv(v):
    if isinstance(v, SymFloat):
        return v.t
    if isinstance(v, bool):
        raise TypeError('bool operand')
    if isinstance(v, int):
        if abs(v) >= 2 ** 53:
            raise OverflowError('int constant beyond 2**53')
        return z3.FPVal(v, F64)
    if isinstance(v, float):
        return z3.FPVal(v, F64)
    raise TypeError(f'unsupported operand {type(v).__name__}')


class SymFloat:
    """IEEE-754 double proxy.  integral=True marks values produced by ceil/floor/trunc (Python ints in the real run, kept as integral FP terms:
    mixing Int2BV/BV2Int with FP does not terminate in z3 - measured)."""
    def __init__(self, ex, t, integral=False):
        self.ex, self.t, self.integral = ex, t, integral

    def _new(self, t, integral=False):
        return SymFloat(self.ex, t, integral)

    def __mul__(self, o): return self._new(z3.fpMul(RNE, self.t, fpv(o)))
    __rmul__ = __mul__
    def __add__(self, o): return self._new(z3.fpAdd(RNE, self.t, fpv(o)))
    __radd__ = __add__
    def __sub__(self, o): return self._new(z3.fpSub(RNE, self.t, fpv(o)))
    def __rsub__(self, o): return self._new(z3.fpSub(RNE, fpv(o), self.t))
    def __truediv__(self, o): return self._new(z3.fpDiv(RNE, self.t, fpv(o)))
    def __rtruediv__(self, o): return self._new(z3.fpDiv(RNE, fpv(o), self.t))
    def __neg__(self): return self._new(z3.fpNeg(self.t), self.integral)
    def __pos__(self): return self
    def __abs__(self): return self._new(z3.fpAbs(self.t), self.integral)
    def __ceil__(self): return self._new(z3.fpRoundToIntegral(RTP, self.t), True)
    def __floor__(self): return self._new(z3.fpRoundToIntegral(RTN, self.t), True)
    def __trunc__(self): return self._new(z3.fpRoundToIntegral(RTZ, self.t), True)
    def __round__(self, n=None):
        return RoundCall(self, n)
    def __lt__(self, o): return e2.SymBool(self.ex, z3.fpLT(self.t, fpv(o)))
    def __le__(self, o): return e2.SymBool(self.ex, z3.fpLEQ(self.t, fpv(o)))
    def __gt__(self, o): return e2.SymBool(self.ex, z3.fpGT(self.t, fpv(o)))
    def __ge__(self, o): return e2.SymBool(self.ex, z3.fpGEQ(self.t, fpv(o)))
    def __eq__(self, o): return e2.SymBool(self.ex, z3.fpEQ(self.t, fpv(o)))
    def __ne__(self, o): return e2.SymBool(self.ex, z3.Not(z3.fpEQ(self.t, fpv(o))))
    __hash__ = None


class SymIntFloat(SymFloat):
    """the same value, presented to the code under test as a Python int (isinstance(x, int) holds; int * float is float arithmetic on the
    exactly converted value below 2**53)"""
    __class__ = property(lambda self: int)


class RoundCall:
    """what round(proxy, n) returns: a record of the call (the C implementation of float.__round__ is not encoded)"""
    def __init__(self, x, n):
        self.x, self.n = x, n


W = 24      # width of the mantissa bit-vector (M < 2**20 always; unsigned conversion)


def to_fp(bv):
    return z3.fpUnsignedToFP(RNE, bv, F64)


def oracle(func, M, s, n, neg):
    """nearest double of the decimal-exact result, as an FP term; M: 64-bit bit-vector (non-negative mantissa)"""
    q = n - s
    if q >= 0:
        mag = z3.fpDiv(RNE, to_fp(M), z3.FPVal(10 ** s, F64))              # already at the requested precision: unchanged
    else:
        d = 10 ** (-q)
        if func == '_roundup':
            U = z3.UDiv(M + (d - 1), z3.BitVecVal(d, W))
        elif func == '_rounddown':
            U = z3.UDiv(M, z3.BitVecVal(d, W))
        else:
            U = z3.UDiv(M + d // 2, z3.BitVecVal(d, W))                   # half away from zero (on the magnitude)
        mag = z3.fpDiv(RNE, to_fp(U), z3.FPVal(10 ** n, F64)) if n >= 0 else z3.fpMul(RNE, to_fp(U), z3.FPVal(10 ** (-n), F64))
    return z3.fpNeg(mag) if neg else mag


def ref_decimal(func, m, s, n, neg):
    """the same oracle with Python integers/Fractions (for the native replay)"""
    from fractions import Fraction
    q = n - s
    if q >= 0:
        v = Fraction(m, 10 ** s)
    else:
        d = 10 ** (-q)
        u = (m + d - 1) // d if func == '_roundup' else m // d if func == '_rounddown' else (m + d // 2) // d
        v = Fraction(u, 10 ** n) if n >= 0 else Fraction(u * 10 ** (-n))
    v = -v if neg else v
    return float(v)         # Fraction -> float is correctly rounded


def _job(func, s, n, neg, mmax, region_src, timeout, with_bound=True, asint=False):
    RT = build.load_class(build.runtime_source(), '_rt_c16', narrow=False)()
    helper = getattr(RT, func)
    M = z3.BitVec('M', W)
    unit = 10.0 ** (-n)
    out = dict(func=func, s=s, n=n, neg=neg, asint=asint, paths=0, queries=0, t0=time.time(), exact='unsat', bound='unsat', structural=None)

    def region(Mv):
        # known-finding region as a z3 predicate over M (python expression over M, s, n with z3 operators)
        return eval(region_src, {'z3': z3, 'M': Mv, 's': s, 'n': n, 'URem': z3.URem, 'BV': lambda v: z3.BitVecVal(v, W)}) if region_src else z3.BoolVal(False)

    def run(ex):
        ex.solver.set('timeout', int((400 if timeout <= 300 else 600) * 1000))        # a single query that does not close in time is 'unknown' (inconclusive), never a verdict
        ex.assume(z3.And(z3.ULT(M, mmax), z3.UGE(M, 1)))
        mag = z3.fpDiv(RNE, to_fp(M), z3.FPVal(10 ** s, F64))
        x = (SymIntFloat if asint else SymFloat)(ex, z3.fpNeg(mag) if neg else mag)
        r = helper(x, n)
        if isinstance(r, RoundCall):
            ok = r.x is x and r.n == n and type(r.n) is int
            out['structural'] = bool(ok)
            return None if ok else dict(kind='structure', why=f'{func} calls round() with other arguments than (number, int(num_digits))')
        if not isinstance(r, SymFloat):
            return dict(kind='type', why=f'{func} returned {type(r).__name__}')
        o = oracle(func, M, s, n, neg)
        # exactness outside the known region
        ex.solver.push()
        ex.solver.add(z3.Not(region(M)), z3.Not(z3.fpEQ(r.t, o)))
        ex.queries += 1
        res = ex.solver.check()
        model = ex.solver.model() if res == z3.sat else None
        ex.solver.pop()
        if res == z3.sat:
            return dict(kind='exact', m=model.eval(M, True).as_long())
        if res != z3.unsat:
            out['exact'] = 'unknown'
        # inside the region: at most one unit away, on the correct side (weaker than the property; not claimed)
        if region_src and with_bound:
            ex.solver.push()
            diff = z3.fpAbs(z3.fpSub(RNE, r.t, o))
            ex.solver.add(region(M), z3.fpGT(diff, z3.FPVal(unit * 1.0000001, F64)))
            ex.queries += 1
            res = ex.solver.check()
            model = ex.solver.model() if res == z3.sat else None
            ex.solver.pop()
            if res == z3.sat:
                return dict(kind='bound', m=model.eval(M, True).as_long())
            if res != z3.unsat:
                out['bound'] = 'unknown'
        return None

    r = e2.explore(run, timeout=timeout)
    out.update(paths=r['paths'], queries=r['queries'], solver_s=r['solver_s'], secs=r['secs'], complete=r['complete'], failures=[f[0] for f in r['failures']])
    return out


FUNCS = ['_roundup', '_rounddown', '_round']

FORMULAS = {'H1': '=ROUNDUP(A1)', 'H2': '=ROUNDUP(A1,)', 'H3': '=ROUNDUP(A1,0)', 'H4': '=ROUNDDOWN(A1)', 'H5': '=ROUNDDOWN(A1,)', 'H6': '=ROUNDDOWN(A1,0)',
            'H7': '=ROUND(A1,0)', 'H8': '=ROUNDUP(A1,B1)', 'H9': '=ROUNDDOWN(A1,B1)', 'H10': '=ROUND(A1,B1)', 'H11': '=ROUNDUP(A1,1)', 'H12': '=ROUNDDOWN(A1,-1)',
            'H13': '=ROUND(1260,-2)', 'H14': '=ROUNDUP(-3.14,0)', 'H15': '=ROUNDDOWN(-3.14)', 'H16': '=ROUND(-1260,-2)', 'H17': '=ROUNDUP(1234,-2)',
            'P1': '=A1%', 'P2': '=0%', 'P3': '=A1%*B1', 'P4': '=B1*A1%', 'P5': '=7%'}
HELPER_OF = {'ROUNDUP': '_roundup', 'ROUNDDOWN': '_rounddown', 'ROUND': '_round'}


def _formula_job(tier):
    """Formula level (real lexer/parser/translators on a real .xlsx): (a) the emitted code of ROUND/ROUNDUP/ROUNDDOWN hands (number, digits) to
    the runtime helper that the FP jobs decide - digits omitted / empty / literal 0 all arrive as 0 -; (b) native values on a witness grid against
    the decimal-exact oracle; (c) x% == x/100 to 15 significant digits on a native grid of decimals M*10^e (the %.15g formatting is C code: executed,
    not encoded)."""
    import re
    from decimal import Decimal, localcontext
    from fractions import Fraction
    t0 = time.time()
    conds = {}
    try:
        src = build.translate([('S', dict({'A1': -3.14, 'B1': 2}, **FORMULAS))])
    except Exception as e:
        return dict(error=f'translation of the formula workbook failed: {type(e).__name__}: {e}')
    K = build.load_class(src, '_c16f', narrow=False)
    calls = []

    # the spies are planted on a second copy of the class itself (the runtime looks cell methods up in the instance's own class only, so a subclass would not do)
    Spy = build.load_class(src, '_c16fs', narrow=False)
    for h in FUNCS:
        def mk(h):
            real = getattr(Spy, h)
            def spy(self, number, digits):
                calls.append((h, number, digits))
                return real(self, number, digits)
            return spy
        setattr(Spy, h, mk(h))

    def ev(cls, cell, **ov):
        args = [{'uid': build.uid(0, a), 'value': cls.EmptyCell() if v is None else v} for a, v in ov.items()]
        return cls(args).exec_function_in(build.uid(0, cell))
    # (a) delegation
    for cell, f in FORMULAS.items():
        m = re.fullmatch(r'=(ROUNDUP|ROUNDDOWN|ROUND)\((A1)(?:,(B1|-?\d*))?\)', f)
        if not m:
            continue
        bad = None
        n_cases = 0
        for x in (-3.14, 3.14, -0.0001, 2.5, -7, 1260, 0):
            for b in (2, 0, -1):
                del calls[:]
                got = ev(Spy, cell, A1=x, B1=b)
                n_cases += 1
                digits = b if m.group(3) == 'B1' else int(m.group(3) or 0)
                want = (HELPER_OF[m.group(1)], x, digits)
                if len(calls) != 1 or calls[0][0] != want[0] or calls[0][1] != x or type(calls[0][1]) is not type(x) or calls[0][2] != digits:
                    real = ev(K, cell, A1=x, B1=b)
                    bad = f'{f} with A1={x!r}, B1={b!r} = {real!r} :: the emitted code does not hand ({x!r}, {digits}) to {want[0]} (calls seen: {calls[:2]})'
                    break
            if bad:
                break
        conds[f'delegates.{cell}'] = ('inconclusive', n_cases, bad + ' - the solver verdicts on the helper do not carry over to this formula; only the witness values below speak for it') if bad else ('holds', n_cases, f'{f}: every evaluation is exactly one call {HELPER_OF[m.group(1)]}(A1, digits)')
    # (b) native witness values against the decimal-exact oracle (numbers with <= 4 decimals; ties of ROUND excluded: recorded finding)
    XS = [Fraction(k, 10 ** s_) for s_ in (0, 1, 2, 4) for k in (0, 1, 5, 7, 25, 314, 1260, 9999, 12345)]
    bad = None
    n_cases = 0
    for cell, f in FORMULAS.items():
        m = re.fullmatch(r'=(ROUNDUP|ROUNDDOWN|ROUND)\((A1|-?[\d.]+)(?:,(B1|-?\d*))?\)', f)
        if not m or bad:
            continue
        h = HELPER_OF[m.group(1)]
        for xq in ([Fraction(m.group(2))] if m.group(2) != 'A1' else [sgn * q for q in XS for sgn in (1, -1)]):
            for b in ((-2, -1, 0, 1, 2, 3) if m.group(3) == 'B1' else (int(m.group(3) or 0),)):
                s_ = 0
                while (xq * 10 ** s_).denominator != 1:
                    s_ += 1
                mm = abs(int(xq * 10 ** s_))
                q = b - s_
                if h == '_round' and q < 0 and (mm % 10 ** (-q)) * 2 == 10 ** (-q):
                    continue            # exact tie: Python round() vs Excel, recorded finding
                if h != '_round' and s_ > 0 and b >= s_ and mm % 5 ** s_ != 0:
                    continue            # recorded finding region (already at the requested precision, not representable)
                xv = int(xq) if xq.denominator == 1 else float(xq)
                try:
                    got = ev(K, cell, A1=xv, B1=b)
                except Exception as e:
                    got = f'{type(e).__name__}: {e}'
                exp = ref_decimal(h, mm, s_, b, xq < 0)
                n_cases += 1
                if not (isinstance(got, (int, float)) and got == exp):
                    bad = f'{f} with A1={xv!r}, B1={b!r} = {got!r} :: decimal-exact result is {exp!r}'
                    break
            if bad:
                break
    conds['values.witness_grid'] = ('violated', n_cases, bad) if bad else ('holds', n_cases, 'every witness value equals the decimal-exact result')
    # (c) percent
    bad = None
    n_cases = 0
    mm_max = 400 if tier == 'quick' else 4000

    def pct_ok(got, exact):
        if exact == 0:
            return got == 0
        return isinstance(got, (int, float)) and abs(Fraction(got) - exact) <= abs(exact) * Fraction(5, 10 ** 15)
    for cell, args in (('P1', 1), ('P3', 2), ('P4', 2)):
        for e_ in range(-16, 9):
            for M in list(range(1, mm_max)) + [0]:
                for sgn in (1, -1):
                    x = float(Fraction(sgn * M * 10 ** (e_ + 20), 10 ** 20))
                    for b in ((3, 0, 0.25) if args == 2 and M % 50 == 1 else (2,)):
                        try:
                            got = ev(K, cell, A1=x, B1=b)
                        except Exception as e:
                            got = f'{type(e).__name__}: {e}'
                        exact = Fraction(x) / 100 * (b if args == 2 else 1)
                        n_cases += 1
                        if not pct_ok(got, exact):
                            bad = f'{FORMULAS[cell]} with A1={x!r}' + (f', B1={b!r}' if args == 2 else '') + f' = {got!r} :: x/100 is {float(exact)!r} (not equal to 15 significant digits)'
                            break
                    if bad: break
                if bad: break
            if bad: break
        if bad: break
    if not bad:
        for cell, ov, exact in (('P2', {}, Fraction(0)), ('P5', {}, Fraction(7, 100)), ('P1', {'A1': None}, Fraction(0)), ('P1', {'A1': 0}, Fraction(0)), ('P3', {'A1': 5, 'B1': 0}, Fraction(0)),
                                ('P1', {'A1': 7}, Fraction(7, 100)), ('P1', {'A1': True}, Fraction(1, 100))):
            try:
                got = ev(K, cell, **ov)
            except Exception as e:
                got = f'{type(e).__name__}: {e}'
            n_cases += 1
            if not pct_ok(got, exact):
                bad = f'{FORMULAS[cell]} with {ov} = {got!r} :: x/100 is {float(exact)!r}'
                break
    conds['percent.grid'] = ('violated', n_cases, bad) if bad else ('holds', n_cases, 'x% (also x%*y, y*x%) equals x/100 to 15 significant digits on the whole grid, zero and blank included')
    return dict(conds=conds, secs=round(time.time() - t0, 1))



def native(func, m, s, n, neg, asint=False):
    RT = build.load_class(build.runtime_source(), '_rt_c16n', narrow=False)()
    from fractions import Fraction
    x = (-m if neg else m) if asint else float(Fraction(-m if neg else m, 10 ** s))
    return x, getattr(RT, func)(x, n), ref_decimal(func, m, s, n, neg)


def run(report, tier, seed):
    ss = [0, 1, 2] if tier == 'quick' else [0, 1, 2, 3, 4]
    ns = [-1, 0, 1, 2] if tier == 'quick' else list(range(-3, 7))
    mmax = 2000 if tier == 'quick' else 5000
    to = 240 if tier == 'quick' else 1500
    kf = {f: findings.for_harness('C16', f) for f in FUNCS}
    jobs = []
    for f in FUNCS:
        for s in ss:
            for n in ns:
                for neg in (False, True):
                    region_src = ' or '.join(f'({e["region"]})' for e in kf[f] if e.get('region')) or None
                    if tier == 'quick' and n < 0 and s > 0:
                        continue
                    jobs.append((f'{f}_s{s}_n{n}_{"neg" if neg else "pos"}', _job, (f, s, n, neg, mmax, region_src, to, tier != 'quick')))
    for f in FUNCS:                     # whole numbers arriving as Python ints (integer cells, integer literals), incl. negative digit counts
        for n in ([-1, 0, 1] if tier == 'quick' else [-3, -2, -1, 0, 1, 2]):
            for neg in (False, True):
                jobs.append((f'{f}_int_n{n}_{"neg" if neg else "pos"}', _job, (f, 0, n, neg, mmax, None, to, False, True)))
    jobs.append(('formulas', _formula_job, (tier,)))
    def _rank(j):
        if j[0] == 'formulas':
            return 0
        args = j[2]
        quick_like = args[1] in (0, 1, 2) and args[2] in (-1, 0, 1, 2)
        return 1 if quick_like else 2
    jobs.sort(key=_rank)       # the formula-level job first (cheap), then the (s, n) pairs of the quick tier, then the deeper ones       # the formula-level job first (it is cheap and must not fall to the budget)
    res = e2.run_jobs(jobs, NCPU, deadline=to * 2 + 120, total=900 if tier == "quick" else 2400)
    fr = res.pop('formulas', {'error': 'formula job missing'})
    if 'error' in fr:
        report.condition('formula.level', 'native', 'inconclusive', detail=fr['error'])
    else:
        for cname, (verdict, n_cases, detail) in sorted(fr['conds'].items()):
            report.condition('formula.' + cname, 'grid', verdict, fr['secs'], n_cases, detail)
            if verdict == 'violated':
                report.violation('formula.' + cname, detail.split(' :: ')[0], detail)
    structural_round = None
    for name, r in res.items():
        cname = 'round.' + name
        if 'error' in r:
            report.condition(cname, 'E2', 'inconclusive', detail=r['error'])
            continue
        report.queries += r['queries']
        if r['failures']:
            f = r['failures'][0]
            if f['kind'] in ('exact', 'bound'):
                x, got, exp = native(r['func'], f['m'], r['s'], r['n'], r['neg'], r.get('asint', False))
                bad = not (got == exp) if f['kind'] == 'exact' else abs(got - exp) > 10.0 ** (-r['n']) * 1.0000001
                detail = f'{r["func"]}({x!r}, {r["n"]}) = {got!r}, decimal-exact result is {exp!r}' + (' (inside the known region: more than one unit away)' if f['kind'] == 'bound' else '')
                if bad:
                    report.condition(cname, 'E2', 'violated', r['secs'], r['paths'], detail)
                    report.violation(cname, f'{r["func"]}({x!r}, {r["n"]})', detail)
                else:
                    report.condition(cname, 'E2', 'spurious', r['secs'], r['paths'], 'model not reproduced: ' + detail)
            else:
                report.condition(cname, 'E2', 'violated', r['secs'], r['paths'], f['why'])
                report.violation(cname, r['func'], f['why'])
        elif not r['complete'] or r['exact'] != 'unsat' or r['bound'] != 'unsat':
            report.condition(cname, 'E2', 'inconclusive', r['secs'], r['paths'], f'complete={r["complete"]} exact={r["exact"]} bound={r["bound"]}')
        else:
            what = ('body is exactly round(number, int(num_digits))' if r['structural'] else
                    'result == nearest double of the decimal-exact result outside the known region (fp unsat)' + ('; one-unit bound inside it (fp unsat)' if tier != 'quick' else ''))
            report.condition(cname, 'E2', 'holds', r['secs'], r['paths'], what)
            report.sample(dict(job=cname, paths=r['paths'], queries=r['queries'], solver_s=r.get('solver_s'), verdict=what))
        if r['func'] == '_round' and r.get('structural'):
            structural_round = True
    # known findings: replay the stored witnesses natively
    for f in FUNCS:
        for e in kf[f]:
            w = e.get('witness')
            if not w:
                continue
            x, got, exp = native(f, w['m'], w['s'], w['n'], w.get('neg', False))
            if got != exp:
                report.condition(f'round.{f}#known', 'replay', 'known', detail=e.get('what', ''))
                report.known_finding(f'{f}({x!r}, {w["n"]}) = {got!r}, decimal-exact result is {exp!r} :: {e.get("what", "")}', key=e.get('what'))
            else:
                report.note(f'known finding no longer reproduces: {f} {w}')
    report.encoded('ExcelInPython._roundup', 'ExcelInPython._rounddown', 'ExcelInPython._round', 'ExcelInPython._normalize_float_number (native)', 'RoundCcTokenTranslator / RoundupCcTokenTranslator / RounddownCcTokenTranslator (emitted code)', 'OperandTokenTranslator (percent)')
    report.bound(f'decimal inputs sign x M/10^s, 1 <= M < {mmax}, s in {ss}; digit counts n in {ns}')
    report.assume('x% : the .15g normalisation (C formatting) is not encodable for the solver; "x% equals x/100 to 15 significant digits" is therefore not a solver verdict: '
                  'it is executed natively on a grid of decimals sign x M x 10^e (M < 400 / 4000, e in -16..8, zero and blank) through the real emitted cell code (conditions formula.percent.grid)',
                  'formula.* conditions: real lexer/parser/translators on a real .xlsx; delegation of ROUND/ROUNDUP/ROUNDDOWN (digits omitted / empty / 0) to the helper decided by the FP jobs, plus native witness values',
                  '*_int_* jobs: the number is presented as a Python int (isinstance(x, int) holds), arithmetic on the exactly converted double',
                  'float.__round__ (C, dtoa) is not encoded: _round is decided structurally (body == round(number, int(digits))); the semantics of Python round() '
                  'versus Excel ROUND on ties is a recorded known finding',
                  'ceil/floor results are kept as integral FP terms (exact below 2**53)')


def replay(rp):
    print(rp)
    return 0
