"""C16 — rounding and percent are decimal-exact.

E2 with IEEE-754 proxies (z3 Float64, RNE) through the real `_roundup/_rounddown/_round` bodies of the regenerated runtime
class: the decimal input is (sign, M, s) with M a bit-vector and x = fp.div(RNE, M, 10^s) (the double nearest to the decimal,
both being exact integers); scale s and digit count n are enumerated (they fix the constants 10^s, 10^n).  Oracle: integer
arithmetic on (M, s, n) with the stated rounding mode, converted back by one correctly rounded operation."""
import math
import time

import z3

from vlib import NCPU, build, e2, findings

LEVEL = 'other'
EXPLANATION = ('Bit-precise symbolic execution (own explorer E2, z3 Float64/RNE proxies implementing __mul__/__truediv__/__ceil__/__floor__/comparisons) '
               'of the real _roundup/_rounddown/_round bodies of the regenerated runtime class. Input: sign x decimal mantissa M (bit-vector) / 10^s; '
               'per (function, sign, s, n) the solver decides "result == nearest double of the exactly rounded decimal" on the complement of the '
               'known-finding region (must be unsat), and a weaker one-unit bound inside it. _round: the body must be exactly round(number, int(digits)) '
               '(decided structurally on a recording proxy); if it is anything else it is encoded like the other two against the half-away-from-zero oracle.')
RULE = ('one job per (function, sign, scale s, digit count n); non-trivial = every path closed with unsat for the exactness query outside the known region, '
        'or a sat model replayed natively')

F64, RNE, RTP, RTN, RTZ = z3.Float64(), z3.RNE(), z3.RTP(), z3.RTN(), z3.RTZ()


def fpv(v):
    if isinstance(v, SymFloat):
        return v.t
    if isinstance(v, bool):
        raise TypeError('bool operand')
    if isinstance(v, int):
        if abs(v) >= 2 ** 53:
            raise OverflowError('int constant beyond 2**53')
        return z3.FPVal(v, F64)
    if isinstance(v, float):
        return z3.FPVal(v, F64)
    raise TypeError(f'unsupported operand {type(v).__name__}')


class SymFloat:
    """IEEE-754 double proxy.  integral=True marks values produced by ceil/floor/trunc (Python ints in the real run, kept as integral FP terms:
    mixing Int2BV/BV2Int with FP does not terminate in z3 - measured)."""
    def __init__(self, ex, t, integral=False):
        self.ex, self.t, self.integral = ex, t, integral

    def _new(self, t, integral=False):
        return SymFloat(self.ex, t, integral)

    def __mul__(self, o): return self._new(z3.fpMul(RNE, self.t, fpv(o)))
    __rmul__ = __mul__
    def __add__(self, o): return self._new(z3.fpAdd(RNE, self.t, fpv(o)))
    __radd__ = __add__
    def __sub__(self, o): return self._new(z3.fpSub(RNE, self.t, fpv(o)))
    def __rsub__(self, o): return self._new(z3.fpSub(RNE, fpv(o), self.t))
    def __truediv__(self, o): return self._new(z3.fpDiv(RNE, self.t, fpv(o)))
    def __rtruediv__(self, o): return self._new(z3.fpDiv(RNE, fpv(o), self.t))
    def __neg__(self): return self._new(z3.fpNeg(self.t), self.integral)
    def __pos__(self): return self
    def __abs__(self): return self._new(z3.fpAbs(self.t), self.integral)
    def __ceil__(self): return self._new(z3.fpRoundToIntegral(RTP, self.t), True)
    def __floor__(self): return self._new(z3.fpRoundToIntegral(RTN, self.t), True)
    def __trunc__(self): return self._new(z3.fpRoundToIntegral(RTZ, self.t), True)
    def __round__(self, n=None):
        return RoundCall(self, n)
    def __lt__(self, o): return e2.SymBool(self.ex, z3.fpLT(self.t, fpv(o)))
    def __le__(self, o): return e2.SymBool(self.ex, z3.fpLEQ(self.t, fpv(o)))
    def __gt__(self, o): return e2.SymBool(self.ex, z3.fpGT(self.t, fpv(o)))
    def __ge__(self, o): return e2.SymBool(self.ex, z3.fpGEQ(self.t, fpv(o)))
    def __eq__(self, o): return e2.SymBool(self.ex, z3.fpEQ(self.t, fpv(o)))
    def __ne__(self, o): return e2.SymBool(self.ex, z3.Not(z3.fpEQ(self.t, fpv(o))))
    __hash__ = None


class RoundCall:
    """what round(proxy, n) returns: a record of the call (the C implementation of float.__round__ is not encoded)"""
    def __init__(self, x, n):
        self.x, self.n = x, n


W = 24      # width of the mantissa bit-vector (M < 2**20 always; unsigned conversion)


def to_fp(bv):
    return z3.fpUnsignedToFP(RNE, bv, F64)


def oracle(func, M, s, n, neg):
    """nearest double of the decimal-exact result, as an FP term; M: 64-bit bit-vector (non-negative mantissa)"""
    q = n - s
    if q >= 0:
        mag = z3.fpDiv(RNE, to_fp(M), z3.FPVal(10 ** s, F64))              # already at the requested precision: unchanged
    else:
        d = 10 ** (-q)
        if func == '_roundup':
            U = z3.UDiv(M + (d - 1), z3.BitVecVal(d, W))
        elif func == '_rounddown':
            U = z3.UDiv(M, z3.BitVecVal(d, W))
        else:
            U = z3.UDiv(M + d // 2, z3.BitVecVal(d, W))                   # half away from zero (on the magnitude)
        mag = z3.fpDiv(RNE, to_fp(U), z3.FPVal(10 ** n, F64)) if n >= 0 else z3.fpMul(RNE, to_fp(U), z3.FPVal(10 ** (-n), F64))
    return z3.fpNeg(mag) if neg else mag


def ref_decimal(func, m, s, n, neg):
    """the same oracle with Python integers/Fractions (for the native replay)"""
    from fractions import Fraction
    q = n - s
    if q >= 0:
        v = Fraction(m, 10 ** s)
    else:
        d = 10 ** (-q)
        u = (m + d - 1) // d if func == '_roundup' else m // d if func == '_rounddown' else (m + d // 2) // d
        v = Fraction(u, 10 ** n) if n >= 0 else Fraction(u * 10 ** (-n))
    v = -v if neg else v
    return float(v)         # Fraction -> float is correctly rounded


def _job(func, s, n, neg, mmax, region_src, timeout, with_bound=True):
    RT = build.load_class(build.runtime_source(), '_rt_c16', narrow=False)()
    helper = getattr(RT, func)
    M = z3.BitVec('M', W)
    unit = 10.0 ** (-n)
    out = dict(func=func, s=s, n=n, neg=neg, paths=0, queries=0, t0=time.time(), exact='unsat', bound='unsat', structural=None)

    def region(Mv):
        # known-finding region as a z3 predicate over M (python expression over M, s, n with z3 operators)
        return eval(region_src, {'z3': z3, 'M': Mv, 's': s, 'n': n, 'URem': z3.URem, 'BV': lambda v: z3.BitVecVal(v, W)}) if region_src else z3.BoolVal(False)

    def run(ex):
        ex.assume(z3.And(z3.ULT(M, mmax), z3.UGE(M, 1)))
        mag = z3.fpDiv(RNE, to_fp(M), z3.FPVal(10 ** s, F64))
        x = SymFloat(ex, z3.fpNeg(mag) if neg else mag)
        r = helper(x, n)
        if isinstance(r, RoundCall):
            ok = r.x is x and r.n == n and type(r.n) is int
            out['structural'] = bool(ok)
            return None if ok else dict(kind='structure', why=f'{func} calls round() with other arguments than (number, int(num_digits))')
        if not isinstance(r, SymFloat):
            return dict(kind='type', why=f'{func} returned {type(r).__name__}')
        o = oracle(func, M, s, n, neg)
        # exactness outside the known region
        ex.solver.push()
        ex.solver.add(z3.Not(region(M)), z3.Not(z3.fpEQ(r.t, o)))
        ex.queries += 1
        res = ex.solver.check()
        model = ex.solver.model() if res == z3.sat else None
        ex.solver.pop()
        if res == z3.sat:
            return dict(kind='exact', m=model.eval(M, True).as_long())
        if res != z3.unsat:
            out['exact'] = 'unknown'
        # inside the region: at most one unit away, on the correct side (weaker than the property; not claimed)
        if region_src and with_bound:
            ex.solver.push()
            diff = z3.fpAbs(z3.fpSub(RNE, r.t, o))
            ex.solver.add(region(M), z3.fpGT(diff, z3.FPVal(unit * 1.0000001, F64)))
            ex.queries += 1
            res = ex.solver.check()
            model = ex.solver.model() if res == z3.sat else None
            ex.solver.pop()
            if res == z3.sat:
                return dict(kind='bound', m=model.eval(M, True).as_long())
            if res != z3.unsat:
                out['bound'] = 'unknown'
        return None

    r = e2.explore(run, timeout=timeout)
    out.update(paths=r['paths'], queries=r['queries'], solver_s=r['solver_s'], secs=r['secs'], complete=r['complete'], failures=[f[0] for f in r['failures']])
    return out


FUNCS = ['_roundup', '_rounddown', '_round']


def native(func, m, s, n, neg):
    RT = build.load_class(build.runtime_source(), '_rt_c16n', narrow=False)()
    from fractions import Fraction
    x = float(Fraction(-m if neg else m, 10 ** s))
    return x, getattr(RT, func)(x, n), ref_decimal(func, m, s, n, neg)


def run(report, tier, seed):
    ss = [0, 1, 2] if tier == 'quick' else [0, 1, 2, 3, 4]
    ns = [-1, 0, 1, 2] if tier == 'quick' else list(range(-3, 7))
    mmax = 2000 if tier == 'quick' else 10 ** 5
    to = 240 if tier == 'quick' else 1500
    kf = {f: findings.for_harness('C16', f) for f in FUNCS}
    jobs = []
    for f in FUNCS:
        for s in ss:
            for n in ns:
                for neg in (False, True):
                    region_src = ' or '.join(f'({e["region"]})' for e in kf[f] if e.get('region')) or None
                    if tier == 'quick' and n < 0 and s > 0:
                        continue
                    jobs.append((f'{f}_s{s}_n{n}_{"neg" if neg else "pos"}', _job, (f, s, n, neg, mmax, region_src, to, tier != 'quick')))
    res = e2.run_jobs(jobs, NCPU, deadline=to * 2 + 120)
    structural_round = None
    for name, r in res.items():
        cname = 'round.' + name
        if 'error' in r:
            report.condition(cname, 'E2', 'inconclusive', detail=r['error'])
            continue
        report.queries += r['queries']
        if r['failures']:
            f = r['failures'][0]
            if f['kind'] in ('exact', 'bound'):
                x, got, exp = native(r['func'], f['m'], r['s'], r['n'], r['neg'])
                bad = not (got == exp) if f['kind'] == 'exact' else abs(got - exp) > 10.0 ** (-r['n']) * 1.0000001
                detail = f'{r["func"]}({x!r}, {r["n"]}) = {got!r}, decimal-exact result is {exp!r}' + (' (inside the known region: more than one unit away)' if f['kind'] == 'bound' else '')
                if bad:
                    report.condition(cname, 'E2', 'violated', r['secs'], r['paths'], detail)
                    report.violation(cname, f'{r["func"]}({x!r}, {r["n"]})', detail)
                else:
                    report.condition(cname, 'E2', 'spurious', r['secs'], r['paths'], 'model not reproduced: ' + detail)
            else:
                report.condition(cname, 'E2', 'violated', r['secs'], r['paths'], f['why'])
                report.violation(cname, r['func'], f['why'])
        elif not r['complete'] or r['exact'] != 'unsat' or r['bound'] != 'unsat':
            report.condition(cname, 'E2', 'inconclusive', r['secs'], r['paths'], f'complete={r["complete"]} exact={r["exact"]} bound={r["bound"]}')
        else:
            what = ('body is exactly round(number, int(num_digits))' if r['structural'] else
                    'result == nearest double of the decimal-exact result outside the known region (fp unsat)' + ('; one-unit bound inside it (fp unsat)' if tier != 'quick' else ''))
            report.condition(cname, 'E2', 'holds', r['secs'], r['paths'], what)
            report.sample(dict(job=cname, paths=r['paths'], queries=r['queries'], solver_s=r.get('solver_s'), verdict=what))
        if r['func'] == '_round' and r.get('structural'):
            structural_round = True
    # known findings: replay the stored witnesses natively
    for f in FUNCS:
        for e in kf[f]:
            w = e.get('witness')
            if not w:
                continue
            x, got, exp = native(f, w['m'], w['s'], w['n'], w.get('neg', False))
            if got != exp:
                report.condition(f'round.{f}#known', 'replay', 'known', detail=e.get('what', ''))
                report.known_finding(f'{f}({x!r}, {w["n"]}) = {got!r}, decimal-exact result is {exp!r} :: {e.get("what", "")}', key=e.get('what'))
            else:
                report.note(f'known finding no longer reproduces: {f} {w}')
    report.encoded('ExcelInPython._roundup', 'ExcelInPython._rounddown', 'ExcelInPython._round')
    report.bound(f'decimal inputs sign x M/10^s, 1 <= M < {mmax}, s in {ss}; digit counts n in {ns}')
    report.assume('x% : the .15g normalisation (C formatting) is not encodable; the statement "x% equals x/100 to 15 significant digits" is NOT decided here '
                  '(C01 pins that x% is emitted as normalize(x/100))',
                  'float.__round__ (C, dtoa) is not encoded: _round is decided structurally (body == round(number, int(digits))); the semantics of Python round() '
                  'versus Excel ROUND on ties is a recorded known finding',
                  'ceil/floor results are kept as integral FP terms (exact below 2**53)')


def replay(rp):
    print(rp)
    return 0
