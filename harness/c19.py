"""C19 — the safety gate reports exactly the Python-like cells.

1. Classification   E1 (CrossHair + symbolic re.findall) on the real Excel._get_suspicious_constructions with a symbolic text over a
                    class-representative alphabet; three-valued oracle so that no more is demanded than the statement says.
2. Placement/gating E2: z3 enumerates (safety flag, sheet, column, row of one or two suspicious / innocent texts); each case is written
                    to a real .xlsx with openpyxl and pushed through the real Parser (Excel.parse, is_safe, the gate in _translate)."""
import os
import shutil
import tempfile
import time

import z3

from vlib import NCPU, WORK, build, e2

LEVEL = 'other'
EXPLANATION = ('(1) The real Excel._get_suspicious_constructions on every text up to a length bound over one representative of every character class '
               'either regex distinguishes (z3 enumerates the space, native execution); three-valued oracle: must be listed / must '
               'not be listed / unconstrained. (2) z3-enumerated placements: the safety flag, the sheet, column and row of a suspicious text and of a '
               'second (suspicious or innocent) text are schedule variables enumerated by the solver; each case is a real .xlsx written by openpyxl and '
               'translated by the real Parser: exception type, key = true title + true A1 address, fragments, nothing innocent listed, never raised '
               'with the check off.')
RULE = ('one condition per (text length, first character class) for the classifier; one job per (suspicious text, second text) for placement; '
        'non-trivial = confirmed over all paths / sub-space closed, or replayed counterexample')

PRE = r'''
import re
from typing import List, Tuple, Optional, Union
from excel2pycl.src.excel import Excel

ALPHA = 'aA_1(). \n'

def ident(c):
    return c.isalnum() or c == '_'

def calls(t):
    """(identifier, start) of every maximal identifier run that is immediately followed by '(' with a ')' somewhere after it"""
    out = []
    i = 0
    while i < len(t):
        if ident(t[i]) and (i == 0 or not ident(t[i - 1])):
            j = i
            while j < len(t) and ident(t[j]):
                j += 1
            if j < len(t) and t[j] == '(' and ')' in t[j + 1:]:
                out.append(t[i:j])
            i = j
        else:
            i += 1
    return out

def upper_call_anywhere(t):
    # an upper-case letter immediately followed by '(' with a ')' after it
    for i in range(len(t) - 1):
        if 'A' <= t[i] <= 'Z' and t[i + 1] == '(' and ')' in t[i + 2:]:
            return True
    return False

def verdict(t):
    """True: must be listed; False: must not be listed; None: the statement demands nothing"""
    cs = calls(t)
    if not cs:
        return False
    if all(c.isalpha() and c.isupper() for c in cs):
        return False
    if not upper_call_anywhere(t):
        return True
    return None
'''

SUSP = ['eval(1)', 'os.system("x")', 'a_b1(\n2)', '__import__(x)']
INNO = ['SUM(A1:A2)', 'plain text', '=IF(A1>1,MAX(1,2),3)', '(no call)', '3.5']
TITLES = ['Main', 'Data 2']


def _placement_job(si, second, timeout):
    """second: ('susp', k) | ('inno', k) | None"""
    from excel2pycl import Cell, Parser
    from excel2pycl.src.exceptions import E2PyclSafetyException
    from openpyxl.utils import get_column_letter
    d = tempfile.mkdtemp(prefix='c19_', dir=build.scratch_dir(os.path.join(os.environ.get('VERIF_PID', 'misc'), 'c19')))
    susp = SUSP[si]

    def case(safety, s1, c1, r1, s2, c2, r2):
        sheets = [{(0, 0): 1, (1, 1): 'x'}, {(0, 0): 2}]
        sheets[s1][(c1, r1)] = susp
        expect = {(s1, c1, r1): susp}
        if second is not None and (s2, c2, r2) != (s1, c1, r1):
            txt = (SUSP if second[0] == 'susp' else INNO)[second[1]]
            sheets[s2][(c2, r2)] = txt
            if second[0] == 'susp':
                expect[(s2, c2, r2)] = txt
        p = build.write_xlsx(os.path.join(d, 'w.xlsx'), [(TITLES[i], sheets[i]) for i in range(2)])
        ps = Parser().set_excel_file_path(p)
        if not safety:
            ps.disable_safety_check()
        try:
            ps.get_translation()
        except E2PyclSafetyException as e:
            if not safety:
                return 'safety exception raised although the check is disabled'
            keys = dict(e.suspicious_cells)
            for (s, c, r), txt in expect.items():
                addr = get_column_letter(c + 1) + str(r + 1)
                hit = [k for k in keys if TITLES[s] in k and k.replace("'", '').replace('!', '').endswith(addr)]
                if len(hit) != 1:
                    return f'suspicious cell {TITLES[s]}!{addr} ({txt!r}) is not listed exactly once: keys {sorted(keys)}'
                frag = keys[hit[0]]
                if not frag or not all(isinstance(x, str) and x and x in txt for x in frag):
                    return f'fragments {frag!r} of {TITLES[s]}!{addr} are not parts of {txt!r}'
            if len(keys) != len(expect):
                return f'cells listed that hold no python-like call: keys {sorted(keys)}, expected {sorted(expect)}'
            return None
        except Exception as e:
            return f'{type(e).__name__}: {e}' if safety else None      # with the check off other translation errors are not this property's business
        return 'a workbook with a python-like cell was not rejected' if safety else None

    def run(ex):
        vs = z3.Ints('safety s1 c1 r1 s2 c2 r2')
        safety, s1, c1, r1, s2, c2, r2 = vs
        ex.assume(z3.And(safety >= 0, safety <= 1, s1 >= 0, s1 <= 1, c1 >= 0, c1 <= 2, r1 >= 0, r1 <= 3, s2 >= 0, s2 <= 1, c2 >= 0, c2 <= 2, r2 >= 0, r2 <= 2))
        if second is None:
            ex.assume(z3.And(s2 == 0, c2 == 0, r2 == 0))
        vals = [ex.concretize(v) for v in vs]
        out = case(*vals)
        return None if out is None else dict(args=vals, why=out)
    r = e2.explore(run, timeout=timeout, max_failures=3)
    shutil.rmtree(d, ignore_errors=True)
    return r


def _innocent_job(timeout):
    """workbooks made only of innocent cells are never rejected"""
    from excel2pycl import Parser
    d = tempfile.mkdtemp(prefix='c19i_', dir=build.scratch_dir(os.path.join(os.environ.get('VERIF_PID', 'misc'), 'c19')))

    def run(ex):
        vs = z3.Ints('k s c r')
        k, s, c, r = vs
        ex.assume(z3.And(k >= 0, k < len(INNO), s >= 0, s <= 1, c >= 0, c <= 2, r >= 0, r <= 2))
        kv, sv, cv, rv = [ex.concretize(v) for v in vs]
        sheets = [{(0, 0): 1, (2, 2): 'UPPER(1)'}, {(0, 0): 2}]
        sheets[sv][(cv, rv)] = INNO[kv]
        p = build.write_xlsx(os.path.join(d, 'w.xlsx'), [(TITLES[i], sheets[i]) for i in range(2)])
        try:
            Parser().set_excel_file_path(p).get_translation()
        except Exception as e:
            from excel2pycl.src.exceptions import E2PyclSafetyException
            if isinstance(e, E2PyclSafetyException):
                return dict(args=[kv, sv, cv, rv], why=f'innocent workbook rejected: {e}')
        return None
    r = e2.explore(run, timeout=timeout, max_failures=3)
    shutil.rmtree(d, ignore_errors=True)
    return r


def _classify_job(n, c0, c1, timeout):
    """every text of length n over the class-representative alphabet whose first two characters are fixed; z3 enumerates the rest"""
    ns = {}
    exec(PRE, ns)
    ALPHA, verdict, Excel = ns['ALPHA'], ns['verdict'], ns['Excel']

    def run(ex):
        vs = [z3.Int(f'ch{i}') for i in range(n)]
        for v in vs:
            ex.assume(z3.And(v >= 0, v < len(ALPHA)))
        if n >= 1:
            ex.assume(vs[0] == c0)
        if n >= 2:
            ex.assume(vs[1] == c1)
        t = ''.join(ALPHA[ex.concretize(v)] for v in vs)
        try:
            got = Excel._get_suspicious_constructions(t)
        except Exception as e:
            return dict(text=t, why=f'{type(e).__name__}: {e}')
        v = verdict(t)
        if v is True and not (len(got) > 0 and all(isinstance(x, str) and x and x in t for x in got)):
            return dict(text=t, why=f'python-like call without upper-case call, but reported fragments are {got!r}')
        if v is False and got != []:
            return dict(text=t, why=f'no python-like call, but reported {got!r}')
        return None
    return e2.explore(run, timeout=timeout, max_failures=3)


def many_cells(report):
    """concrete (labelled): workbooks with many suspicious cells on two sheets - the exception lists every one of them exactly once"""
    import time
    from excel2pycl import Parser
    from excel2pycl.src.exceptions import E2PyclSafetyException
    from openpyxl.utils import get_column_letter
    t0 = time.time()
    d = tempfile.mkdtemp(prefix='c19m_', dir=build.scratch_dir(os.path.join(os.environ.get('VERIF_PID', 'misc'), 'c19')))
    bad = None
    for n in (1, 19, 20, 21, 25, 64, 130):
        sheets = [{(0, 0): 1, (1, 0): 'x'}, {(0, 0): 2}]
        expect = []
        for i in range(n):
            s_, c, r = i % 2, 2 + (i // 2) % 5, (i // 10)
            sheets[s_][(c, r)] = SUSP[i % len(SUSP)]
            expect.append((s_, c, r))
            sheets[s_][(8, r)] = INNO[i % len(INNO)]
        p = build.write_xlsx(os.path.join(d, 'w.xlsx'), [(TITLES[i], sheets[i]) for i in range(2)])
        try:
            Parser().set_excel_file_path(p).get_translation()
            bad = f'{n} suspicious cells: the workbook was not rejected'
        except E2PyclSafetyException as e:
            keys = dict(e.suspicious_cells)
            missing = [f'{TITLES[s_]}!{get_column_letter(c + 1)}{r + 1}' for (s_, c, r) in expect
                       if len([k for k in keys if TITLES[s_] in k and k.replace("'", '').replace('!', '').endswith(get_column_letter(c + 1) + str(r + 1))]) != 1]
            if missing or len(keys) != n:
                bad = f'{n} suspicious cells planted, {len(keys)} listed; not listed exactly once: {missing[:4]}'
        except Exception as e:
            bad = f'{n} suspicious cells: {type(e).__name__}: {e}'
        if bad:
            break
    shutil.rmtree(d, ignore_errors=True)
    if bad:
        report.condition('place.many_cells', 'concrete', 'violated', time.time() - t0, 7, bad)
        report.violation('place.many_cells', bad.split(':')[0], bad)
    else:
        report.condition('place.many_cells', 'concrete', 'holds', time.time() - t0, 7, 'workbooks with 1..130 suspicious cells: every one listed exactly once (concrete probe, not a solver verdict)')


def run(report, tier, seed):
    many_cells(report)
    # 1. classifier: exhaustive over the class-representative alphabet, enumerated by z3, executed natively
    maxlen = 5 if tier == 'quick' else 6
    to0 = 240 if tier == 'quick' else 1200
    jobs = [('classify_len0', _classify_job, (0, 0, 0, to0))] + [(f'classify_len1_{a}', _classify_job, (1, a, 0, to0)) for a in range(9)]
    for n in range(2, maxlen + 1):
        for a in range(9):
            for b_ in range(9):
                jobs.append((f'classify_len{n}_{a}{b_}', _classify_job, (n, a, b_, to0)))
    res = e2.run_jobs(jobs, NCPU, deadline=to0 * 2 + 60)
    agg = {}
    for name, r in sorted(res.items()):
        key = 'classify.' + name.rsplit('_', 1)[0] if name.count('_') > 1 else 'classify.' + name
        a_ = agg.setdefault(key, dict(paths=0, secs=0.0, fails=[], incomplete=0, errors=[]))
        if 'error' in r:
            a_['errors'].append(r['error'])
            continue
        report.queries += r['queries']
        a_['paths'] += r['paths']
        a_['secs'] += r['secs']
        a_['fails'] += [f[0] for f in r['failures']]
        a_['incomplete'] += 0 if r['complete'] else 1
    for key, a_ in sorted(agg.items()):
        if a_['fails']:
            f = a_['fails'][0]
            report.condition(key, 'E2', 'violated', a_['secs'], a_['paths'], f'{f["text"]!r}: {f["why"]}')
            report.violation(key, repr(f['text']), f['why'])
        elif a_['errors'] or a_['incomplete']:
            report.condition(key, 'E2', 'inconclusive', a_['secs'], a_['paths'], str(a_['errors'][:1]) + f' incomplete jobs: {a_["incomplete"]}')
        else:
            report.condition(key, 'E2', 'holds', a_['secs'], a_['paths'], 'every text of this length classified as the statement demands')
            report.sample(dict(job=key, texts=a_['paths'], secs=round(a_['secs'], 1)))
    ns = {}
    exec(PRE, ns)
    bad = [x for x in (0, 1, -5, 2.5, True, False, None) if x is not None and ns['Excel']._get_suspicious_constructions(x) != []]
    report.condition('classify.non_string_values', 'concrete', 'violated' if bad else 'holds', detail=f'numbers and booleans are never listed; offending: {bad}')
    if bad:
        report.violation('classify.non_string_values', repr(bad), 'a non-text constant is reported as suspicious')
    report.encoded('Excel._get_suspicious_constructions')
    T = 90
    # 2. placement / gating (E2, real files)
    to = 240 if tier == 'quick' else 1200
    seconds = [None, ('inno', 0), ('inno', 2), ('susp', 1)] if tier == 'quick' else [None] + [('inno', k) for k in range(len(INNO))] + [('susp', k) for k in range(len(SUSP))]
    jobs = [(f'place_s{si}_{"none" if sec is None else sec[0] + str(sec[1])}', _placement_job, (si, sec, to))
            for si in (range(2) if tier == 'quick' else range(len(SUSP))) for sec in seconds]
    jobs.append(('innocent_only', _innocent_job, (to,)))
    res = e2.run_jobs(jobs, NCPU, deadline=to * 2 + 60)
    for name, r in sorted(res.items()):
        cname = 'gate.' + name
        if 'error' in r:
            report.condition(cname, 'E2', 'inconclusive', detail=r['error'])
            continue
        report.queries += r['queries']
        if r['failures']:
            f = r['failures'][0][0]
            report.condition(cname, 'E2', 'violated', r['secs'], r['paths'], f['why'])
            report.violation(cname, f'{name} (safety,s1,c1,r1,s2,c2,r2)={f["args"]}', f['why'])     # already a native run on a real file
        elif not r['complete']:
            report.condition(cname, 'E2', 'inconclusive', r['secs'], r['paths'], 'budget hit')
        else:
            report.condition(cname, 'E2', 'holds', r['secs'], r['paths'], 'all placements closed')
            report.sample(dict(job=cname, placements=r['paths'], secs=r['secs']))
    report.encoded('Excel.parse', 'Excel.is_safe', 'Parser._translate (safety gate)', 'E2PyclSafetyException')
    report.bound(f'classifier: every text of length <= {maxlen} (exhaustive, z3-enumerated, native runs) over {{a, A, _, 1, (, ), ., blank, newline}}; placement: 2 sheets, one suspicious text at any of 2x3x4 positions, '
                 'a second suspicious/innocent text at any of 2x3x3 positions, check enabled/disabled')
    report.assume('three-valued oracle: texts that contain both a python-like call and an upper-case letter directly before "(" are unconstrained (the statement only '
                  'speaks about texts with no upper-case function call)',
                  'the classifier is a pure function of a short text: E1 (symbolic regex) does not finish length 4 (measured); the solver enumerates the alphabet^n space instead',
                  'placement: the solver enumerates the finite placement space; every case runs natively on a real .xlsx written by openpyxl',
                  'outside the claim: longer texts, non-ASCII identifiers')
    shutil.rmtree(os.path.join(WORK, 'C19', 'c19'), ignore_errors=True)


def replay(rp):
    print(rp)
    return 0
