"""C01 — formula operators keep their Excel meaning (precedence, sign, %, &, comparisons, literals).

Group 1 (grouping)   E3: the expression the real Lexer/AstBuilder/translators emit for every formula of an enumerated skeleton
                     family is compared, as a term over uninterpreted operators (EUF, z3), with the term of an independent
                     precedence-climbing parser.  EUF-different shapes go to the value tier: z3 over reals (operators interpreted,
                     text concatenation uninterpreted) looks for operand values that tell the two trees apart; models are
                     replayed natively on the real generated class.
Group 2 (blank = 0, override = workbook value)   E1 on emitted classes.
Group 3 (a numeric literal denotes the nearest double)   E2/Float64 through the real LiteralToken.__init__ with shims for
                     int/float/str in its module globals; the digit groups are symbolic bit-vectors."""
import itertools
import os
import random
import time

import z3

from vlib import NCPU, build, e2, e3, findings
from vlib.e1 import Suite

LEVEL = 'translation_validation'
EXPLANATION = ('Translation validation of the operator grammar: for every formula of an enumerated skeleton family (chains of the 11 binary '
               'operators over cell operands and literals, decorated with unary signs, postfix %, parentheses) the expression emitted by the real '
               'Lexer/AstBuilder/translators is parsed with Python\'s own ast and compared as a z3 term over uninterpreted operators (EUF) with the '
               'term of an independent Excel-precedence parser: unsat of "emitted != reference" means identical trees, i.e. equal values for every '
               'operand value and every interpretation of the operators. EUF-different shapes are decided by a value tier (z3 over reals, models '
               'replayed on the real generated class). Blank/override clauses: CrossHair on emitted classes. Numeric literals: IEEE-754 (z3 Float64) '
               'through the real LiteralToken constructor with symbolic digit groups.')
RULE = ('program = one formula skeleton; disagreement = EUF-different term, each decided by the value tier and replayed; distinct_nontrivial counts '
        'skeletons whose emitted and reference terms are proved identical plus replay-confirmed differences')

BIN = ['+', '-', '*', '/', '&', '=', '<>', '<', '<=', '>', '>=']
SLOTS = ['A1', 'B1', 'C1', 'D1', 'E1']
CLS = {'+': 'a', '-': 'a', '*': 'm', '/': 'm', '&': 's', '=': 'c', '<>': 'c', '<': 'c', '<=': 'c', '>': 'c', '>=': 'c'}


def skeletons(n):
    """(formula text, attrs) for every chain of n binary operators and each decoration"""
    out = []
    for ops in itertools.product(BIN, repeat=n):
        opnds = SLOTS[:n + 1]
        cl = ''.join(CLS[o] for o in ops)
        base = dict(ops=list(ops), classes=cl, n=n, right_cs=any(c in 'cs' for c in cl[1:]))

        def join(parts):
            s = parts[0]
            for o, p in zip(ops, parts[1:]):
                s += o + p
            return '=' + s
        out.append((join(opnds), dict(base, decor='plain', at=-1)))
        for i in range(n + 1):
            for d, f in (('neg', lambda x: '-' + x), ('pos', lambda x: '+' + x), ('pct', lambda x: x + '%'), ('negpct', lambda x: '-' + x + '%'),
                         ('dblneg', lambda x: '--' + x), ('par1', lambda x: '(' + x + ')'), ('par1pct', lambda x: '(' + x + ')%'),
                         ('lit', lambda x: '2.5'), ('negpar', lambda x: '-(' + x + ')')):
                if i > 0 and d in ('neg', 'pos', 'dblneg', 'negpct', 'negpar') and ops[i - 1] in ('+', '-') and d != 'negpar':
                    pass   # a sign right after + or - is still a unary sign in Excel (e.g. A1--B1); kept
                parts = list(opnds)
                parts[i] = f(parts[i])
                out.append((join(parts), dict(base, decor=d, at=i)))
        # one parenthesised sub-chain [i..j], j > i
        for i in range(n + 1):
            for j in range(i + 1, n + 1):
                if i == 0 and j == n:
                    continue
                parts = list(opnds)
                s = '=' + ''.join((('(' if k == i else '') + parts[k] + (')' if k == j else '') + (ops[k] if k < n else '')) for k in range(n + 1))
                out.append((s, dict(base, decor='parsub', at=i, to=j)))
        # nested brackets: an outer group [i..j] whose content starts (or ends) with an inner group
        for i in range(n + 1):
            for j in range(i + 2, n + 1):
                for k in range(i + 1, j):
                    parts = list(opnds)
                    lead = '=' + ''.join((('((' if m == i else '') + parts[m] + (')' if m == k else '') + (')' if m == j else '') + (ops[m] if m < n else '')) for m in range(n + 1))
                    trail = '=' + ''.join((('(' if m == i else '') + ('(' if m == k else '') + parts[m] + ('))' if m == j else '') + (ops[m] if m < n else '')) for m in range(n + 1))
                    out.append((lead, dict(base, decor='nestlead', at=i, to=j)))
                    out.append((trail, dict(base, decor='nesttrail', at=i, to=j)))
    return out


def translate_one(formula):
    """real Lexer -> AstBuilder -> translators on one formula cell F1 over constant cells A1..E1 (no workbook I/O)"""
    from excel2pycl.src.cell import Cell
    from excel2pycl.src.context import Context
    from excel2pycl.src.excel import Excel
    from excel2pycl.src.translators import CellTranslator
    excel = Excel({'data': [[[1, 2, 3, 4, 5, formula]]], 'titles': ['S'], 'suspicious_cells': {}, 'sheets_size': [{'last_column': 6, 'last_row': 1}]})
    ctx = Context()
    ctx._titles, ctx._sheets_size = excel.get_titles(), excel.get_sheets_size()
    CellTranslator.translate(Cell(0, 5, 0), excel, ctx)
    return ctx


CELLNAME = {f'_0_{i}_0': s for i, s in enumerate(SLOTS)}


def value_tier(rt, et):
    """z3 over reals on the two normalised trees (text concatenation uninterpreted): ('sat', operands) | ('unsat', None) | ('unknown', None)"""
    R = z3.RealSort()
    cat2 = z3.Function('cat2', R, R, R)
    nil = z3.Real('nil')
    vars_ = {s: z3.Int('v_' + s) for s in SLOTS}
    side = []

    def b2r(b):
        return z3.If(b, z3.RealVal(1), z3.RealVal(0))

    def enc(t):
        k = t[0]
        if k == 'cell':
            return z3.ToReal(vars_[t[1]])
        if k == 'num':
            return z3.RealVal(repr(t[1]))
        if k == 'bool':
            return z3.RealVal(1 if t[1] else 0)
        if k == 'str':
            raise e3.EmitError('text literal in value tier')
        if k == 'cat':
            acc = nil
            for x in reversed(t[1]):
                acc = cat2(enc(x), acc)
            return acc
        name, args = t[1], [enc(x) for x in t[2:]]
        if name == 'neg':
            return -args[0]
        if name in ('pos', 'tostr'):
            return args[0]
        l, r = args
        if name == 'div':
            side.append(r != 0)
            return l / r
        if name in ('add', 'sub', 'mul'):
            return {'add': l + r, 'sub': l - r, 'mul': l * r}[name]
        return b2r({'cmp_eq': l == r, 'cmp_ne': l != r, 'cmp_lt': l < r, 'cmp_le': l <= r, 'cmp_gt': l > r, 'cmp_ge': l >= r}[name])

    s = z3.Solver()
    s.set('timeout', 5000)
    try:
        a, b = enc(rt), enc(et)
    except e3.EmitError:
        return 'unknown', None
    for c in side:
        s.add(c)
    for v in vars_.values():
        s.add(v >= -9, v <= 9)
    s.add(a != b)
    r = s.check()
    if r == z3.unsat:
        return 'unsat', None
    if r != z3.sat:
        return 'unknown', None
    m = s.model()
    return 'sat', {k: m.eval(v, model_completion=True).as_long() for k, v in vars_.items()}


def native_eval(code, env):
    """evaluate the emitted expression on the real generated runtime with operand overrides"""
    K = build.load_class(build.runtime_source(), '_rt_c01', narrow=False)
    inst = K([{'uid': f'_0_{i}_0', 'value': env[s]} for i, s in enumerate(SLOTS)])
    return eval(code, {'self': inst})


def close(a, b):
    if isinstance(a, bool) or isinstance(b, bool) or isinstance(a, str) or isinstance(b, str):
        return a == b and type(a) is type(b) or (isinstance(a, (int, float)) and isinstance(b, (int, float)) and not isinstance(a, bool) and not isinstance(b, bool) and a == b)
    return abs(a - b) <= 1e-9 * max(1.0, abs(a), abs(b))


def region_of(attrs, kfs):
    for i, e in enumerate(kfs):
        try:
            if eval(e['region'], {}, dict(attrs)):
                return i
        except Exception:
            pass
    return None


def _load_snapshot():
    import gzip
    from vlib import VERIF
    p = os.path.join(VERIF, 'known_shapes', 'C01.txt.gz')
    if not os.path.exists(p):
        return None
    with gzip.open(p, 'rt') as f:
        return set(l.rstrip('\n') for l in f if l.strip())


SNAP = 'unloaded'


def _group1_chunk(fam, kfs, use_snapshot=True):
    import ast as _ast
    global SNAP
    if SNAP == 'unloaded':
        SNAP = _load_snapshot()
    snap = SNAP if use_snapshot else None
    cnt = dict(euf_identical=0, value_equal=0, known=0, violated=0, inconclusive=0)
    hits, conds, queries = {}, [], 0
    for formula, attrs in fam:
        attrs = dict(attrs, formula=formula)
        name = 'grouping:' + formula
        try:
            ref = e3.ref_parse(formula)
            rt = e3.ref_tree(ref)
        except e3.RefError as e:
            conds.append((name, 'inconclusive', f'reference parser: {e}'))
            cnt['inconclusive'] += 1
            continue
        bad = detail = None
        code = None
        try:
            ctx = translate_one(formula)
            code = ctx._cell_translations['_0_5_0']
            et = e3.emitted_tree(_ast.parse(code, mode='eval').body, CELLNAME)
        except Exception as e:      # translator refuses / crashes / emits something outside the operator algebra: a counterexample by itself
            bad, detail = True, f'{formula}: {type(e).__name__}: {e}'
        queries += 1
        if bad is None:
            if e3.euf_equal(e3.to_z3(rt), e3.to_z3(et)):
                cnt['euf_identical'] += 1
                continue
            verdict, env = value_tier(rt, et)
            queries += 1
            if verdict == 'unsat':
                cnt['value_equal'] += 1          # different trees, equal values for all reals (e.g. a%+(b+c))
                continue
            if verdict == 'unknown':
                if region_of(attrs, kfs) is not None:
                    hits.setdefault(('unreproduced', region_of(attrs, kfs)), []).append(formula)
                conds.append((name, 'inconclusive', f'trees differ (emitted: {code}); value tier undecided'))
                cnt['inconclusive'] += 1
                continue
            try:
                exp = e3.ref_eval(ref, env)
            except ZeroDivisionError:
                exp = ZeroDivisionError
            except Exception:
                if region_of(attrs, kfs) is not None:
                    hits.setdefault(('unreproduced', region_of(attrs, kfs)), []).append(formula)
                conds.append((name, 'spurious', 'the reference evaluator cannot evaluate the model (text against number comparison)'))
                cnt['inconclusive'] += 1
                continue
            try:
                got = native_eval(code, env)
                bad = exp is ZeroDivisionError or not close(got, exp)
                detail = f'{formula}: emitted `{code}` gives {got!r}, Excel grouping gives {exp!r} for {env}'
            except ZeroDivisionError:
                bad, detail = exp is not ZeroDivisionError, f'{formula}: emitted `{code}` divides by zero for {env}, Excel grouping gives {exp!r}'
            except Exception as ex:
                bad, detail = True, f'{formula}: emitted `{code}` raises {type(ex).__name__}: {ex} for {env}'
            if not bad:
                kr = region_of(attrs, kfs)
                if kr is not None:
                    cnt['unreproduced_in_known_region'] = cnt.get('unreproduced_in_known_region', 0) + 1     # trees differ inside a known region; this model (text concatenation is uninterpreted) did not replay
                    hits.setdefault(('unreproduced', kr), []).append(formula)
                else:
                    conds.append((name, 'spurious', 'value-tier model not reproduced natively: ' + str(detail)))
                    cnt['inconclusive'] += 1
                continue
        ki = region_of(attrs, kfs)
        if ki is not None and (snap is None or formula in snap):
            cnt['known'] += 1
            hits.setdefault(ki, []).append(formula)
            continue
        if ki is not None:
            detail = str(detail) + ' [the shape lies in the region of a recorded finding, but it is not one of the formulas recorded as failing there (known_shapes/C01.txt.gz): a new failure]'
        cnt['violated'] += 1
        conds.append((name, 'violated', detail))
    return dict(cnt=cnt, hits=hits, conds=conds, queries=queries)


def group1(report, tier, seed):
    t0 = time.time()
    rnd = random.Random(seed)
    fam = skeletons(1) + skeletons(2)
    if tier == 'quick':
        s3 = skeletons(3)
        rnd.shuffle(s3)
        fam += s3[:8000]
    else:
        fam += skeletons(3)
    kfs = findings.for_harness('C01', 'grouping')
    chunks = [fam[i::NCPU * 2] for i in range(NCPU * 2)]
    res = e2.run_jobs([(f'chunk{i}', _group1_chunk, (ch, kfs)) for i, ch in enumerate(chunks) if ch], NCPU, deadline=3000)
    cnt = dict(euf_identical=0, value_equal=0, known=0, violated=0, inconclusive=0)
    hits = {}
    nviol = 0
    for name_, r in res.items():
        if 'error' in r:
            report.condition('grouping.' + name_, 'E3', 'inconclusive', detail=r['error'])
            continue
        report.queries += r['queries']
        for k, v in r['cnt'].items():
            cnt[k] = cnt.get(k, 0) + v
        for ki, fs in r['hits'].items():
            hits.setdefault(ki, []).extend(fs)
        for (cname, verdict, detail) in r['conds']:
            report.condition(cname, 'E3+values', verdict, detail=detail)
            if verdict == 'violated':
                if nviol < 8:
                    report.violation('grouping_' + ''.join(ch if ch.isalnum() else '_' for ch in cname[9:])[:50], cname[9:], detail)
                nviol += 1
    report.extra.update(programs=len(fam), **{'grouping_' + k: v for k, v in cnt.items()})
    report.extra['disagreements_checked'] = cnt['value_equal'] + cnt['known'] + cnt['violated']
    report.sample(dict(family=len(fam), **cnt, secs=round(time.time() - t0, 1)))
    report.condition('grouping.identical_or_value_equal', 'E3', 'holds', time.time() - t0, cnt['euf_identical'] + cnt['value_equal'],
                     f'{cnt["euf_identical"]} skeletons: emitted term == reference term (EUF unsat); {cnt["value_equal"]}: different trees, value tier unsat over reals')
    # known findings: replay the stored witness natively, report once per finding
    for ki, e in enumerate(kfs):
        w = e.get('witness')
        if not w:
            continue
        try:
            ctx = translate_one(w['formula'])
            got = native_eval(ctx._cell_translations['_0_5_0'], w['values'])
            exp = e3.ref_eval(e3.ref_parse(w['formula']), w['values'])
            bad = not close(got, exp)
            detail = f'{w["formula"]} with {w["values"]} -> {got!r}, Excel grouping gives {exp!r}'
        except Exception as ex:
            bad, detail = True, f'{w["formula"]}: {type(ex).__name__}: {ex}'
        if bad:
            report.condition(f'grouping#kf{ki}', 'replay', 'known', 0, len(hits.get(ki, [])), e.get('what', ''))
            report.known_finding(f'grouping: {detail}; {len(hits.get(ki, []))} skeletons of the family fail inside this region :: {e.get("what", "")}', key=e.get('what'))
        else:
            report.note(f'known finding no longer reproduces: {w}')
    return fam


# ---- group 2: blank counts as 0 in arithmetic; an override is the same as the workbook value (E1) ---------------------------------------
PRE2 = r"""
from typing import List, Tuple, Optional, Union
from vlib import build
OPS = ['+', '-', '*']
FORMS = {'G1': '=A1+B1', 'G2': '=A1-B1', 'G3': '=A1*B1', 'G4': '=B1-A1', 'G5': '=B1+A1%', 'G6': '=B1*-A1', 'G7': '=A1+B1*C1', 'G8': '=(A1+B1)*C1', 'G9': '=B1/C1'}
TRANSLATE_ERRORS = []
try:
    KB = build.load_class(build.translate_formulas(FORMS, {'B1': 5, 'C1': 2}), '_kblank')          # A1 is blank in the workbook
except Exception as _e:
    KB = None
    TRANSLATE_ERRORS.append(('blank-operand family', f'{type(_e).__name__}: {_e}'))
CONSTS = [0, 1, -3, 7, 4, True]
KC = {}
for _i, _c in enumerate(CONSTS):
    try:
        KC[_i] = build.load_class(build.translate_formulas(FORMS, {'A1': _c, 'B1': 5, 'C1': 2}), f'_kconst{_i}')
    except Exception as _e:
        TRANSLATE_ERRORS.append((f'constant {_c!r} family', f'{type(_e).__name__}: {_e}'))

def ev(k, cell, **ov):
    args = [{'uid': build.uid(0, a), 'value': v} for a, v in ov.items()]
    return k(args).exec_function_in(build.uid(0, cell))

def expect(cell, a, b, c):
    return {'G1': a + b, 'G2': a - b, 'G3': a * b, 'G4': b - a, 'G5': b + a / 100, 'G6': b * -a, 'G7': a + b * c, 'G8': (a + b) * c}[cell]
"""


def group2(report, tier):
    s = Suite('C01', 'blank', PRE2, timeout=60 if tier == 'quick' else 200)
    enc = ('ExcelInPython.EmptyCell (int subclass: arithmetic)', 'ExcelInPython._cell_preprocessor', 'ExpressionTokenTranslator.translate', 'CellTranslator._set_cell_to_context')
    for cell in ['G1', 'G2', 'G3', 'G4', 'G6', 'G7', 'G8']:
        s.add(f'blank_in_workbook_{cell}', 'b: int, c: int', 'True', f"return ev(KB, '{cell}', B1=b, C1=c) == expect('{cell}', 0, b, c)", encodes=enc, requires='KB is not None')
        s.add(f'blank_override_{cell}', 'b: int, c: int', 'True', f"return ev(KB, '{cell}', A1=KB.EmptyCell(), B1=b, C1=c) == expect('{cell}', 0, b, c)", encodes=enc, requires='KB is not None')
    s.add('blank_percent', 'b: int', 'True', "return ev(KB, 'G5', B1=b) == b", encodes=enc, requires='KB is not None')
    for i in range(6):
        s.add(f'constant_vs_override_{i}', 'b: int, c: int, f: int', '0 <= f < 7', f"""
            cell = ['G1', 'G2', 'G3', 'G4', 'G6', 'G7', 'G8'][f]
            j = ({i} + 1) % len(CONSTS)
            return ev(KC[{i}], cell, B1=b, C1=c) == ev(KC[j], cell, A1=CONSTS[{i}], B1=b, C1=c)
        """, encodes=enc, requires=f'{i} in KC and {(i + 1) % 6} in KC')
    s.run(report)
    s.report_translate_errors(report)


# ---- group 3: numeric literals (E2, IEEE-754 through the real LiteralToken.__init__) ------------------------------------------------------
def _literal_job(k, e, ibits):
    """digit groups symbolic: integer part I < 2**ibits, fraction F < 10**k with exactly k digits, exponent e concrete (None = absent)"""
    import builtins
    import excel2pycl.src.tokens.regexp_tokens as RT
    from excel2pycl.src.cell import Cell
    F64, RNE = z3.Float64(), z3.RNE()
    REG = {}

    class SymDigits:
        def __init__(self, k, v):
            self.k, self.v = k, v
            self.tag = '\x00D%d\x00' % len(REG)
            REG[self.tag] = self
        def __bool__(self): return True
        def __len__(self): return self.k
        def __format__(self, spec): return self.tag
        def __str__(self): return self.tag

    def to_fp(bv):
        return z3.fpSignedToFP(RNE, bv, F64)

    class SymNum:
        def __init__(self, t, kind): self.t, self.kind = t, kind
        def _c(self, o):
            if isinstance(o, SymNum): return o
            if isinstance(o, bool): raise TypeError(o)
            if isinstance(o, int): return SymNum(z3.FPVal(o, F64), 'int')
            if isinstance(o, float): return SymNum(z3.FPVal(o, F64), 'float')
            raise TypeError(o)
        def _k(self, o): return 'int' if self.kind == o.kind == 'int' else 'float'
        def __add__(self, o): o = self._c(o); return SymNum(z3.fpAdd(RNE, self.t, o.t), self._k(o))
        __radd__ = __add__
        def __sub__(self, o): o = self._c(o); return SymNum(z3.fpSub(RNE, self.t, o.t), self._k(o))
        def __mul__(self, o): o = self._c(o); return SymNum(z3.fpMul(RNE, self.t, o.t), self._k(o))
        __rmul__ = __mul__
        def __truediv__(self, o): o = self._c(o); return SymNum(z3.fpDiv(RNE, self.t, o.t), 'float')

    import re as _re
    TAGRE = _re.compile('\x00D\\d+\x00')

    def part(txt):
        """digit-group text -> (bit-vector value, number of digits)"""
        if TAGRE.fullmatch(txt):
            d = REG[txt]
            return d.v, d.k
        return z3.BitVecVal(builtins.int(txt), 64), len(txt)

    def s_int(x, *a):
        if isinstance(x, SymDigits): return SymNum(to_fp(x.v), 'int')
        if isinstance(x, str) and '\x00D' in x:
            v, _ = part(x)
            return SymNum(to_fp(v), 'int')
        return builtins.int(x, *a)

    def s_float(x):
        if isinstance(x, SymDigits):
            return SymNum(to_fp(x.v), 'float')
        if isinstance(x, str) and '\x00D' in x:
            # contract of float() on a decimal text  whole.fraction[e exp] : the correctly rounded (nearest, ties-to-even) double
            m = _re.fullmatch('(\x00D\\d+\x00|\\d+)\\.(\x00D\\d+\x00|\\d+)(?:e(-?\\d+))?', x)
            if not m:
                raise ValueError('float shim cannot parse ' + repr(x))
            (iv, _), (fv, fk) = part(m.group(1)), part(m.group(2))
            ex = builtins.int(m.group(3) or 0) - fk
            num = iv * (10 ** fk) + fv
            t = z3.fpMul(RNE, to_fp(num), z3.FPVal(10 ** ex, F64)) if ex >= 0 else z3.fpDiv(RNE, to_fp(num), z3.FPVal(10 ** (-ex), F64))
            return SymNum(t, 'float')
        return builtins.float(x)

    def s_str(x):
        if isinstance(x, SymNum):
            tag = '\x00N%d\x00' % len(REG)
            REG[tag] = x
            return tag
        return builtins.str(x)

    RT.int, RT.float, RT.str = s_int, s_float, s_str         # shadow the builtins through the module globals of the code under test
    t0 = time.time()
    I, Fr = z3.BitVec('I', 64), z3.BitVec('Fr', 64)
    S = z3.Solver()
    S.set('timeout', 240000)
    S.add(z3.ULT(I, 2 ** ibits), z3.ULT(Fr, 10 ** k))
    groups = ['whole', '', SymDigits(6, I), 'x', '.', SymDigits(k, Fr), ('e' if e is not None else ''), (builtins.str(e) if e is not None else ''), '', '', '', '']
    try:
        tok = RT.LiteralToken(tuple(groups), Cell(0, 0, 0))
        got = REG.get(tok.value)
    except Exception as ex_:
        return dict(k=k, e=e, verdict='unsupported', detail=f'{type(ex_).__name__}: {ex_}', secs=time.time() - t0)
    if not isinstance(got, SymNum):
        return dict(k=k, e=e, verdict='unsupported', detail=f'literal value is {tok.value!r}', secs=time.time() - t0)
    num = I * (10 ** k) + Fr
    ee = (e or 0) - k
    ref = z3.fpMul(RNE, to_fp(num), z3.FPVal(10 ** ee, F64)) if ee >= 0 else z3.fpDiv(RNE, to_fp(num), z3.FPVal(10 ** (-ee), F64))
    S.add(z3.Not(z3.fpEQ(got.t, ref)))
    r = S.check()
    out = dict(k=k, e=e, verdict=str(r), secs=time.time() - t0)
    if r == z3.sat:
        m = S.model()
        i, f = m.eval(I, True).as_long(), m.eval(Fr, True).as_long()
        out['text'] = f'{i}.{f:0{k}d}' + (f'e{e}' if e is not None else '')
    return out


def group3(report, tier):
    ks = [1, 2, 3] if tier == 'quick' else [1, 2, 3, 4, 5, 6]
    es = [None, -1, 1, 2] if tier == 'quick' else [None, -6, -3, -1, 0, 1, 2, 3, 6]
    ibits = 16 if tier == 'quick' else 20
    jobs = [(f'literal_k{k}_e{e}', _literal_job, (k, e, ibits)) for k in ks for e in es]
    res = e2.run_jobs(jobs, NCPU, deadline=600)
    for name, r in res.items():
        cname = 'literal.' + name
        if 'error' in r:
            report.condition(cname, 'E2', 'inconclusive', detail=r['error'])
            continue
        report.queries += 1
        if r['verdict'] == 'unsat':
            report.condition(cname, 'E2', 'holds', r['secs'], 1, f'I<2^{ibits}, {r["k"]} fraction digits, exponent {r["e"]}: LiteralToken value == nearest double (fp unsat)')
            report.sample(dict(job=cname, verdict='unsat', secs=round(r['secs'], 2)))
        elif r['verdict'] == 'sat':
            # replay: the real lexer + constructor, no shims, in this (parent) process
            text = r['text']
            try:
                code = translate_one('=' + text)._cell_translations['_0_5_0']
                got = eval(code)
            except Exception as ex:
                got = f'{type(ex).__name__}: {ex}'
            if got != float(text):
                report.condition(cname, 'E2', 'violated', r['secs'], 1, f'={text} -> {got!r}, nearest double is {float(text)!r}')
                report.violation(cname, '=' + text, f'literal evaluates to {got!r}, float({text!r}) = {float(text)!r}')
            else:
                report.condition(cname, 'E2', 'spurious', r['secs'], 1, f'model {text} not reproduced')
        elif r['verdict'] == 'unsupported':
            # the code shape is not carried by the proxies (e.g. the digit groups are re-formatted): a native grid through the real lexer instead
            # (enumeration, labelled): every fraction with k digits incl. leading zeros x a handful of integer parts
            k, e = r['k'], r['e']
            bad, n = None, 0
            for i in (0, 1, 7, 12, 255, 65535):
                for f in range(10 ** k):
                    text = f'{i}.{f:0{k}d}' + (f'e{e}' if e is not None else '')
                    n += 1
                    try:
                        got = eval(translate_one('=' + text)._cell_translations['_0_5_0'])
                    except Exception as ex:
                        got = f'{type(ex).__name__}: {ex}'
                    if got != float(text):
                        bad = (text, got)
                        break
                if bad:
                    break
            if bad:
                report.condition(cname, 'grid', 'violated', r['secs'], n, f'={bad[0]} -> {bad[1]!r}, nearest double is {float(bad[0])!r}')
                report.violation(cname, '=' + bad[0], f'literal evaluates to {bad[1]!r}, float({bad[0]!r}) = {float(bad[0])!r}')
            else:
                report.condition(cname, 'grid', 'inconclusive', r['secs'], n, f'symbolic run unsupported for this code shape ({r.get("detail", "")[:120]}); native grid of {n} literals agrees - no solver verdict')
        else:
            report.condition(cname, 'E2', 'inconclusive', r['secs'], 1, f'{r["verdict"]} {r.get("detail", "")}')


def run(report, tier, seed):
    group1(report, tier, seed)
    group2(report, tier)
    group3(report, tier)
    report.encoded('Lexer.parse', 'AstBuilder.parse', 'CompositeBaseToken.get', 'ExpressionToken/_TOKEN_SETS', 'ExpressionTokenTranslator.translate',
                   'OperandTokenTranslator.translate', 'OperatorSubTokenTranslator.translate', 'LiteralToken.__init__')
    report.bound(f'grouping: all chains of 1 and 2 binary operators (11 operators) x 10 decorations per operand + parenthesised sub-chains, '
                 f'{"8000 seeded of the 51 909" if tier == "quick" else "all"} chains of 3; operands = cell references, one numeric literal decoration; value tier: operands in -9..9')
    report.bound('blank/override: 9 formulas, operands unbounded ints; 6 workbook constants')
    report.bound('literals: integer part < 2^16 (quick) / 2^20, 1-3 (quick) / 1-6 fraction digits, exponent in a listed set; digit groups are 64-bit bit-vectors, value Float64')
    report.assume('_normalize_float_number is the identity at term level (documented 15-significant-digit normalisation)',
                  'a & b & c: associativity of text concatenation and str(str(x)) = str(x) are built into the term normalisation; text forms of floats/booleans/blank under & are outside the claim (C17)',
                  'float(decimal text) is modelled by its contract: one correctly rounded (RNE) operation on exactly representable integers (valid while the digits form an integer < 2^53 and the power of ten <= 10^22)',
                  'outside the claim: text operands in arithmetic positions, error-valued operands, chains longer than the bound')
    report.stub('builtins int/float/str are shadowed in the module globals of regexp_tokens by proxy-aware shims (group 3 only, inside forked workers)')


def replay(rp):
    print(rp)
    return 0
