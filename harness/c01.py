"""C01 — formula operators keep their Excel meaning (precedence, sign, %, &, comparisons, literals).

Group 1 (grouping)   E3: the expression the real Lexer/AstBuilder/translators emit for every formula of an enumerated skeleton
                     family is compared, as a term over uninterpreted operators (EUF, z3), with the term of an independent
                     precedence-climbing parser.  EUF-different shapes go to the value tier: z3 over reals (operators interpreted,
                     text concatenation uninterpreted) looks for operand values that tell the two trees apart; models are
                     replayed natively on the real generated class.
Group 2 (blank = 0, override = workbook value)   E1 on emitted classes.
Group 3 (a numeric literal denotes the nearest double)   E2/Float64 through the real LiteralToken.__init__ with shims for
                     int/float/str in its module globals; the digit groups are symbolic bit-vectors."""
import itertools
import random
import time

import z3

from vlib import NCPU, build, e2, e3, findings
from vlib.e1 import Suite

LEVEL = 'translation_validation'
EXPLANATION = ('Translation validation of the operator grammar: for every formula of an enumerated skeleton family (chains of the 11 binary '
               'operators over cell operands and literals, decorated with unary signs, postfix %, parentheses) the expression emitted by the real '
               'Lexer/AstBuilder/translators is parsed with Python\'s own ast and compared as a z3 term over uninterpreted operators (EUF) with the '
               'term of an independent Excel-precedence parser: unsat of "emitted != reference" means identical trees, i.e. equal values for every '
               'operand value and every interpretation of the operators. EUF-different shapes are decided by a value tier (z3 over reals, models '
               'replayed on the real generated class). Blank/override clauses: CrossHair on emitted classes. Numeric literals: IEEE-754 (z3 Float64) '
               'through the real LiteralToken constructor with symbolic digit groups.')
RULE = ('program = one formula skeleton; disagreement = EUF-different term, each decided by the value tier and replayed; distinct_nontrivial counts '
        'skeletons whose emitted and reference terms are proved identical plus replay-confirmed differences')

BIN = ['+', '-', '*', '/', '&', '=', '<>', '<', '<=', '>', '>=']
SLOTS = ['A1', 'B1', 'C1', 'D1', 'E1']
CLS = {'+': 'a', '-': 'a', '*': 'm', '/': 'm', '&': 's', '=': 'c', '<>': 'c', '<': 'c', '<=': 'c', '>': 'c', '>=': 'c'}


def skeletons(n):
    """(formula text, attrs) for every chain of n binary operators and each decoration"""
    out = []
    for ops in itertools.product(BIN, repeat=n):
        opnds = SLOTS[:n + 1]
        base = dict(ops=list(ops), classes=''.join(CLS[o] for o in ops), n=n)

        def join(parts):
            s = parts[0]
            for o, p in zip(ops, parts[1:]):
                s += o + p
            return '=' + s
        out.append((join(opnds), dict(base, decor='plain', at=-1)))
        for i in range(n + 1):
            for d, f in (('neg', lambda x: '-' + x), ('pos', lambda x: '+' + x), ('pct', lambda x: x + '%'), ('negpct', lambda x: '-' + x + '%'),
                         ('dblneg', lambda x: '--' + x), ('par1', lambda x: '(' + x + ')'), ('par1pct', lambda x: '(' + x + ')%'),
                         ('lit', lambda x: '2.5'), ('negpar', lambda x: '-(' + x + ')')):
                if i > 0 and d in ('neg', 'pos', 'dblneg', 'negpct', 'negpar') and ops[i - 1] in ('+', '-') and d != 'negpar':
                    pass   # a sign right after + or - is still a unary sign in Excel (e.g. A1--B1); kept
                parts = list(opnds)
                parts[i] = f(parts[i])
                out.append((join(parts), dict(base, decor=d, at=i)))
        # one parenthesised sub-chain [i..j], j > i
        for i in range(n + 1):
            for j in range(i + 1, n + 1):
                if i == 0 and j == n:
                    continue
                parts = list(opnds)
                s = '=' + ''.join((('(' if k == i else '') + parts[k] + (')' if k == j else '') + (ops[k] if k < n else '')) for k in range(n + 1))
                out.append((s, dict(base, decor='parsub', at=i, to=j)))
    return out


def translate_one(formula):
    """real Lexer -> AstBuilder -> translators on one formula cell F1 over constant cells A1..E1 (no workbook I/O)"""
    from excel2pycl.src.cell import Cell
    from excel2pycl.src.context import Context
    from excel2pycl.src.excel import Excel
    from excel2pycl.src.translators import CellTranslator
    excel = Excel({'data': [[[1, 2, 3, 4, 5, formula]]], 'titles': ['S'], 'suspicious_cells': {}, 'sheets_size': [{'last_column': 6, 'last_row': 1}]})
    ctx = Context()
    ctx._titles, ctx._sheets_size = excel.get_titles(), excel.get_sheets_size()
    CellTranslator.translate(Cell(0, 5, 0), excel, ctx)
    return ctx


CELLNAME = {f'_0_{i}_0': s for i, s in enumerate(SLOTS)}


def value_tier(ref_tree, emitted_node):
    """z3 over reals: operand values that make the two trees differ (text concatenation uninterpreted).  -> dict slot->int or None"""
    R = z3.RealSort()
    cat = z3.Function('cat', R, R, R)
    vars_ = {s: z3.Int('v_' + s) for s in SLOTS}
    side = []

    def b2r(b):
        return z3.If(b, z3.RealVal(1), z3.RealVal(0))

    def num(x):
        return z3.ToReal(x) if z3.is_int(x) else x

    def ref(t):
        k = t[0]
        if k == 'par':
            return ref(t[1])
        if k == 'num':
            return z3.RealVal(t[1])
        if k == 'ref':
            return num(vars_[t[1]])
        if k == 'neg':
            return -ref(t[1])
        if k == 'pos':
            return ref(t[1])
        if k == 'pct':
            return ref(t[1]) / 100
        if k in ('str', 'bool'):
            raise e3.EmitError('non-numeric literal in value tier')
        op, l, r = t[1], ref(t[2]), ref(t[3])
        if op == '&':
            return cat(l, r)
        if op == '/':
            side.append(r != 0)
            return l / r
        if op in '+-*':
            return {'+': l + r, '-': l - r, '*': l * r}[op]
        return b2r({'=': l == r, '<>': l != r, '<': l < r, '<=': l <= r, '>': l > r, '>=': l >= r}[op])

    import ast

    def emi(n):
        if isinstance(n, ast.Constant) and isinstance(n.value, (int, float)) and not isinstance(n.value, bool):
            return z3.RealVal(repr(n.value))
        if isinstance(n, ast.BinOp):
            l, r = emi(n.left), emi(n.right)
            if isinstance(n.op, ast.Add):
                # str(x)+str(y) is concatenation
                if all(isinstance(x, ast.Call) and isinstance(x.func, ast.Name) and x.func.id == 'str' for x in (n.left, n.right)):
                    return cat(emi(n.left.args[0]), emi(n.right.args[0]))
                return l + r
            if isinstance(n.op, ast.Sub):
                return l - r
            if isinstance(n.op, ast.Mult):
                return l * r
            if isinstance(n.op, ast.Div):
                side.append(r != 0)
                return l / r
        if isinstance(n, ast.UnaryOp):
            return -emi(n.operand) if isinstance(n.op, ast.USub) else emi(n.operand)
        if isinstance(n, ast.Call):
            f = n.func
            if isinstance(f, ast.Name) and f.id == 'str':
                return emi(n.args[0])
            if isinstance(f, ast.Attribute):
                if f.attr == '_cell_preprocessor':
                    return num(vars_[CELLNAME[n.args[0].value]])
                if f.attr == '_normalize_float_number':
                    return emi(n.args[0])
                if f.attr == '_compare':
                    l, r = emi(n.args[1]), emi(n.args[2])
                    o = n.args[0].value
                    return b2r({'==': l == r, '!=': l != r, '<': l < r, '<=': l <= r, '>': l > r, '>=': l >= r}[o])
        raise e3.EmitError('value tier cannot encode ' + ast.unparse(n)[:60])

    s = z3.Solver()
    s.set('timeout', 5000)
    try:
        a, b = ref(ref_tree), emi(emitted_node)
    except e3.EmitError:
        return None
    for c in side:
        s.add(c)
    for v in vars_.values():
        s.add(v >= -9, v <= 9)
    s.add(a != b)
    if s.check() != z3.sat:
        return None
    m = s.model()
    return {k: m.eval(v, model_completion=True).as_long() for k, v in vars_.items()}


def native_eval(code, env):
    """evaluate the emitted expression on the real generated runtime with operand overrides"""
    K = build.load_class(build.runtime_source(), '_rt_c01', narrow=False)
    inst = K([{'uid': f'_0_{i}_0', 'value': env[s]} for i, s in enumerate(SLOTS)])
    return eval(code, {'self': inst})


def close(a, b):
    if isinstance(a, bool) or isinstance(b, bool) or isinstance(a, str) or isinstance(b, str):
        return a == b and type(a) is type(b) or (isinstance(a, (int, float)) and isinstance(b, (int, float)) and not isinstance(a, bool) and not isinstance(b, bool) and a == b)
    return abs(a - b) <= 1e-9 * max(1.0, abs(a), abs(b))


def region_of(attrs, kfs):
    for i, e in enumerate(kfs):
        try:
            if eval(e['region'], {}, dict(attrs)):
                return i
        except Exception:
            pass
    return None


def group1(report, tier, seed):
    t0 = time.time()
    rnd = random.Random(seed)
    fam = skeletons(1) + skeletons(2)
    if tier == 'quick':
        s3 = skeletons(3)
        rnd.shuffle(s3)
        fam += s3[:1500]
    else:
        fam += skeletons(3)
    kfs = findings.for_harness('C01', 'grouping')
    same = diff_known = 0
    hits = {}
    unknown = []
    for formula, attrs in fam:
        attrs = dict(attrs, formula=formula)
        try:
            ref = e3.ref_parse(formula)
        except e3.RefError as e:
            report.condition('grouping:' + formula, 'E3', 'inconclusive', detail=f'reference parser: {e}')
            continue
        try:
            ctx = translate_one(formula)
            code = ctx._cell_translations['_0_5_0']
            node = __import__('ast').parse(code, mode='eval').body
            et = e3.emitted_term(node, CELLNAME)
            identical = e3.euf_equal(e3.ref_term(ref), et)
            problem = None
        except Exception as e:      # translator refuses / crashes / emits something outside the operator algebra
            identical, problem, code, node = False, f'{type(e).__name__}: {e}', None, None
        report.queries += 1
        if identical:
            same += 1
            continue
        ki = region_of(attrs, kfs)
        if ki is not None:
            diff_known += 1
            hits.setdefault(ki, []).append(formula)
            continue
        unknown.append((formula, attrs, ref, code, node, problem))
    report.extra.update(programs=len(fam), euf_identical=same, euf_different_in_known_regions=diff_known, euf_different_unknown=len(unknown))
    report.sample(dict(family=len(fam), identical=same, known_region=diff_known, unknown=len(unknown), secs=round(time.time() - t0, 1)))
    report.condition('grouping.euf_identical_shapes', 'E3', 'holds', time.time() - t0, same, f'{same} skeletons: emitted term == reference term (EUF unsat)')
    # known findings: replay the stored witness natively, report once per finding
    for ki, e in enumerate(kfs):
        w = e.get('witness')
        if not w:
            continue
        try:
            ctx = translate_one(w['formula'])
            got = native_eval(ctx._cell_translations['_0_5_0'], w['values'])
            exp = e3.ref_eval(e3.ref_parse(w['formula']), w['values'])
            bad = not close(got, exp)
            detail = f'{w["formula"]} with {w["values"]} -> {got!r}, Excel grouping gives {exp!r}'
        except Exception as ex:
            bad, detail = True, f'{w["formula"]}: {type(ex).__name__}: {ex}'
        if bad:
            report.condition(f'grouping#kf{ki}', 'replay', 'known', 0, len(hits.get(ki, [])), e.get('what', ''))
            report.known_finding(f'grouping: {detail}; {len(hits.get(ki, []))} skeletons of the family in this region :: {e.get("what", "")}', key=e.get('what'))
        else:
            report.note(f'known finding no longer reproduces: {w}')
    # unknown differences: value tier
    nviol = 0
    for formula, attrs, ref, code, node, problem in unknown[:400]:
        name = 'grouping:' + formula
        if problem is not None:
            # rejected or crashed on a formula of the operator grammar: a counterexample by itself (the statement covers every such formula)
            report.condition(name, 'E3', 'violated', detail=problem)
            if nviol < 8:
                report.violation('grouping_' + ''.join(ch if ch.isalnum() else '_' for ch in formula)[:50], formula, problem)
            nviol += 1
            continue
        env = value_tier(ref, node)
        if env is None:
            report.condition(name, 'E3+values', 'inconclusive', detail=f'trees differ (emitted: {code}) but the value tier found no distinguishing operands')
            continue
        try:
            got = native_eval(code, env)
            exp = e3.ref_eval(ref, env)
            bad = not close(got, exp)
            detail = f'emitted `{code}` gives {got!r}, Excel grouping gives {exp!r} for {env}'
        except ZeroDivisionError:
            bad, detail = False, 'division by zero in replay'
        except Exception as ex:
            bad, detail = True, f'emitted `{code}` raises {type(ex).__name__}: {ex} for {env}'
        if bad:
            report.condition(name, 'E3+values', 'violated', detail=detail)
            if nviol < 8:
                report.violation('grouping_' + ''.join(ch if ch.isalnum() else '_' for ch in formula)[:50], f'{formula} {env}', detail)
            nviol += 1
        else:
            report.condition(name, 'E3+values', 'spurious', detail='value-tier model not reproduced natively: ' + detail)
    if len(unknown) > 400:
        report.note(f'{len(unknown) - 400} further EUF-different skeletons not sent to the value tier (cap)')
    return fam


def run(report, tier, seed):
    fam = group1(report, tier, seed)
    report.encoded('Lexer.parse', 'AstBuilder.parse', 'CompositeBaseToken.get', 'ExpressionToken/_TOKEN_SETS', 'ExpressionTokenTranslator.translate',
                   'OperandTokenTranslator.translate', 'OperatorSubTokenTranslator.translate', 'LiteralToken.__init__')
    report.bound(f'grouping: all chains of 1 and 2 binary operators (11 operators) x 10 decorations per operand + parenthesised sub-chains, '
                 f'{"1500 seeded of the" if tier == "quick" else "all"} chains of 3; operands = cell references, one numeric literal decoration')
    report.assume('_normalize_float_number is the identity at term level (documented 15-significant-digit normalisation)',
                  'a & b is add(tostr a, tostr b) on both sides; text forms of floats/booleans/blank under & are outside the claim (C17)',
                  'outside the claim: text operands in arithmetic positions, error-valued operands, chains longer than the bound')


def replay(rp):
    print(rp)
    return 0
